// Package budgets binds Budgets.tla / BudgetRounds.tla (C05) to the real budget arithmetic of
// pkg/apis/v1 (unit level), to disruption.BuildDisruptionBudgetMapping on a cluster state hydrated
// through the real informer controllers (mapping level) and to disruption rounds of the real
// disruption controller (round level).  Drivers only record; Budgets_Trace.tla judges.
package budgets

import (
	"encoding/json"
	"flag"
	"fmt"
	"os"
	"strconv"
	"strings"
	"time"

	"github.com/robfig/cron/v3"
	"k8s.io/utils/clock"

	v1 "sigs.k8s.io/karpenter/pkg/apis/v1"

	"verif/harness/reg"
	"verif/harness/trace"
	"verif/harness/world"
)

func init() {
	reg.Register("budgets-unit", Unit)
	reg.Register("budgets-hits", HitsCmd)
}

// Budget is the abstract budget of BudgetGuards.tla.
type Budget struct {
	Cron    string   `json:"cron"`
	Hits    []int    `json:"hits"`
	Dur     int      `json:"dur"`
	Kind    string   `json:"kind"`
	Val     int      `json:"val"`
	Reasons []string `json:"reasons"`
	RState  string   `json:"rstate"`
	Mal     string   `json:"mal"`
	Txt     string   `json:"txt"`
}

// Case is one element of the case space enumerated by TLC (Budgets.tla).
type Case struct {
	Fam     string   `json:"fam"`
	Budgets []Budget `json:"budgets"`
	Now     int      `json:"now"`
	N       int      `json:"n"`
	Reason  string   `json:"reason"`
}

// Variant is a concrete placement of the abstract horizon: the horizon starts `Day` days after the
// scenario epoch (always midnight UTC, so the hit sets of the model's schedules keep their shape), the
// clock reads `Frac` milliseconds past the abstract instant and reports time in a zone `Zone` seconds
// east of UTC.  None of them changes the abstract answer (hits are whole seconds, budgets are UTC).
type Variant struct {
	Day  int `json:"day"`
	Frac int `json:"frac"`
	Zone int `json:"zone"`
}

// zoned is the harness virtual clock reporting in a fixed zone.
type zoned struct {
	*world.VClock
	loc *time.Location
}

func (z zoned) Now() time.Time { return z.VClock.Now().In(z.loc) }

var _ clock.Clock = zoned{}

// manifestBudget renders the abstract budget as the JSON a user would submit.
func manifestBudget(b Budget) map[string]any {
	m := map[string]any{}
	switch {
	case b.Mal == "nodes":
		m["nodes"] = b.Txt
	case b.Kind == "pct":
		m["nodes"] = strconv.Itoa(b.Val) + "%"
	default:
		m["nodes"] = strconv.Itoa(b.Val)
	}
	if b.Cron != "-" {
		m["schedule"] = b.Cron
	}
	if b.Dur >= 0 {
		m["duration"] = (time.Duration(b.Dur) * time.Second).String()
	}
	switch b.RState {
	case "empty":
		m["reasons"] = []string{}
	case "set":
		m["reasons"] = b.Reasons
	}
	return m
}

// PoolFromManifest decodes a NodePool from JSON exactly as a client of the API server would
// (encoding/json into the typed object): `reasons: []` arrives as an empty non-nil slice.
func PoolFromManifest(name string, bs []Budget) (*v1.NodePool, string, error) {
	items := []map[string]any{}
	for _, b := range bs {
		items = append(items, manifestBudget(b))
	}
	doc := map[string]any{
		"apiVersion": "karpenter.sh/v1", "kind": "NodePool",
		"metadata": map[string]any{"name": name},
		"spec": map[string]any{
			"template": map[string]any{"spec": map[string]any{
				"nodeClassRef": map[string]any{"group": "karpenter.test.sh", "kind": "TestNodeClass", "name": world.NodeClassName},
				"requirements": []any{}, "expireAfter": "Never"}},
			"disruption": map[string]any{"consolidationPolicy": "WhenEmptyOrUnderutilized", "consolidateAfter": "0s", "budgets": items},
		},
	}
	raw, err := json.Marshal(doc)
	if err != nil {
		return nil, "", err
	}
	np := &v1.NodePool{}
	if err := json.Unmarshal(raw, np); err != nil {
		return nil, string(raw), err
	}
	return np, string(raw), nil
}

// libHits steps the cron library's Next from lo-1s and returns the hits in [lo, hi] as seconds since anchor.
// ok=false when the text does not parse.
func libHits(text string, anchor time.Time, lo, hi int) (hits []int, ok bool) {
	s, err := cron.ParseStandard("TZ=UTC " + text)
	if err != nil {
		return nil, false
	}
	hits = []int{}
	end := anchor.Add(time.Duration(hi) * time.Second)
	t := s.Next(anchor.Add(time.Duration(lo)*time.Second - time.Second))
	for !t.IsZero() && !t.After(end) {
		hits = append(hits, int(t.Sub(anchor)/time.Second))
		t = s.Next(t)
	}
	return hits, true
}

func neverFires(text string, anchor time.Time) bool {
	s, err := cron.ParseStandard("TZ=UTC " + text)
	return err == nil && s.Next(anchor).IsZero()
}

func window(hits []int, lo, hi int) []int {
	out := []int{}
	for _, h := range hits {
		if h >= lo && h <= hi {
			out = append(out, h)
		}
	}
	return out
}

func sameInts(a, b []int) bool {
	if len(a) != len(b) {
		return false
	}
	for i := range a {
		if a[i] != b[i] {
			return false
		}
	}
	return true
}

func absBudget(b Budget, hits []int) trace.M {
	rs := b.Reasons
	if rs == nil {
		rs = []string{}
	}
	return trace.M{"cron": b.Cron, "hits": hits, "dur": b.Dur, "kind": b.Kind, "val": b.Val, "reasons": rs,
		"rstate": b.RState, "mal": b.Mal, "txt": b.Txt}
}

func clamp32(x int) int {
	if x > 2147483647 {
		return 2147483647
	}
	if x < -2147483647 {
		return -2147483647
	}
	return x
}

// Unit replays TLC-enumerated cases on the real budget arithmetic.
func Unit(args []string) error {
	fs := flag.NewFlagSet("budgets-unit", flag.ContinueOnError)
	in := fs.String("in", "", "cases JSON (list of cases)")
	out := fs.String("out", "traces", "output directory")
	shards := fs.Int("shards", 4, "trace shards")
	variantsJ := fs.String("variants", `{"*":[{"day":0,"frac":0,"zone":0}]}`, "family -> variants (\"*\" = default)")
	if err := fs.Parse(args); err != nil {
		return err
	}
	raw, err := os.ReadFile(*in)
	if err != nil {
		return err
	}
	var cases []Case
	if err := json.Unmarshal(raw, &cases); err != nil {
		return err
	}
	variants := map[string][]Variant{}
	if err := json.Unmarshal([]byte(*variantsJ), &variants); err != nil {
		return err
	}
	w, err := trace.NewWriter(*out, "budgets-unit", *shards)
	if err != nil {
		return err
	}
	mismatch := []string{}
	calls := 0
	for ci, c := range cases {
		vs, ok := variants[c.Fam]
		if !ok {
			vs = variants["*"]
		}
		np, manifest, err := PoolFromManifest("pool-1", c.Budgets)
		if err != nil {
			return fmt.Errorf("case %d: manifest %s does not decode: %w", ci, manifest, err)
		}
		if len(np.Spec.Disruption.Budgets) != len(c.Budgets) {
			return fmt.Errorf("case %d: decoded %d budgets of %d", ci, len(np.Spec.Disruption.Budgets), len(c.Budgets))
		}
		w.Begin(trace.M{"level": "unit", "case": ci, "fam": c.Fam})
		for _, v := range vs {
			anchor := world.Epoch.AddDate(0, 0, v.Day)
			vc := world.NewClock()
			vc.SetTo(anchor.Add(time.Duration(c.Now)*time.Second + time.Duration(v.Frac)*time.Millisecond))
			var clk clock.Clock = vc
			if v.Zone != 0 {
				clk = zoned{vc, time.FixedZone("z", v.Zone)}
			}
			// hit sets near the instant, from the library; compared with the model's abstract schedule
			abs := []trace.M{}
			for _, b := range c.Budgets {
				hits := []int{}
				switch b.Mal {
				case "-", "sched-only":
					if b.Cron != "-" {
						d := b.Dur
						if d < 0 {
							d = 0
						}
						lo, hi := c.Now-d-2, c.Now+2
						lh, ok := libHits(b.Cron, anchor, lo, hi)
						if !ok {
							return fmt.Errorf("case %d: schedule %q of a well-formed budget does not parse", ci, b.Cron)
						}
						hits = lh
						// the model's hit set only covers its horizon: compare inside it
						top := hi
						if len(b.Hits) > 0 && b.Hits[len(b.Hits)-1] < top {
							top = b.Hits[len(b.Hits)-1]
						}
						if mh := window(b.Hits, lo, top); lo >= 0 && !sameInts(mh, window(lh, lo, top)) && len(mismatch) < 5 {
							mismatch = append(mismatch, fmt.Sprintf("%q day=%d [%d,%d]: model %v library %v", b.Cron, v.Day, lo, hi, mh, lh))
						}
					}
				case "nohit":
					if !neverFires(b.Cron, anchor) && len(mismatch) < 5 {
						mismatch = append(mismatch, fmt.Sprintf("%q is expected never to fire but the library finds a hit", b.Cron))
					}
				}
				abs = append(abs, absBudget(b, hits))
			}
			reason := v1.DisruptionReason(c.Reason)
			res, rerr := np.GetAllowedDisruptionsByReason(clk, c.N, reason)
			must := np.MustGetAllowedDisruptions(clk, c.N, reason)
			act, bval, berr := []string{}, []int{}, []bool{}
			for i := range np.Spec.Disruption.Budgets {
				b := &np.Spec.Disruption.Budgets[i]
				a, aerr := b.IsActive(clk)
				switch {
				case aerr != nil:
					act = append(act, "E")
				case a:
					act = append(act, "T")
				default:
					act = append(act, "F")
				}
				bv, bverr := b.GetAllowedDisruptions(clk, c.N)
				bval = append(bval, clamp32(bv))
				berr = append(berr, bverr != nil)
			}
			w.Emit(trace.M{"e": "Call", "fn": "Allowed", "fam": c.Fam, "now": c.Now, "n": c.N, "reason": c.Reason,
				"budgets": abs, "res": clamp32(res), "err": rerr != nil, "must": clamp32(must),
				"act": act, "bval": bval, "berr": berr, "day": v.Day, "frac": v.Frac, "zone": v.Zone})
			calls++
		}
	}
	paths := w.Close()
	sum, _ := json.Marshal(trace.M{"traces": w.N, "lines": w.Lines, "files": paths, "calls": calls,
		"hit_mismatch": mismatch, "observations": observations()})
	fmt.Println(string(sum))
	return nil
}

// observations records (for the evidence, never judged) what the real functions do with inputs that the
// CRD schema rejects and on which the statement's "malformed" is not clear-cut.
func observations() []string {
	out := []string{}
	vc := world.NewClock()
	for _, nodes := range []string{"-1", "-5%", "+5", "101%", "200%", "010", "2147483647", "2147483648", "4294967297"} {
		np, _, err := PoolFromManifest("p", []Budget{{Cron: "-", Dur: -1, Kind: "count", Mal: "nodes", Txt: nodes, RState: "nil"}})
		if err != nil {
			continue
		}
		v, e := np.GetAllowedDisruptionsByReason(vc, 10, v1.DisruptionReasonDrifted)
		out = append(out, fmt.Sprintf("nodes=%q n=10 -> %d err=%v", nodes, v, e != nil))
	}
	return out
}

// HitsCmd prints the library's hit sets of schedules within a horizon (used to build model constants).
func HitsCmd(args []string) error {
	fs := flag.NewFlagSet("budgets-hits", flag.ContinueOnError)
	crons := fs.String("crons", "", "schedules separated by |")
	day := fs.Int("day", 0, "horizon start, days after the epoch")
	horizon := fs.Int("horizon", 21600, "horizon length in seconds")
	if err := fs.Parse(args); err != nil {
		return err
	}
	anchor := world.Epoch.AddDate(0, 0, *day)
	res := map[string][]int{}
	for _, c := range strings.Split(*crons, "|") {
		h, ok := libHits(c, anchor, 0, *horizon)
		if !ok {
			return fmt.Errorf("schedule %q does not parse", c)
		}
		res[c] = h
	}
	b, _ := json.Marshal(res)
	fmt.Println(string(b))
	return nil
}
