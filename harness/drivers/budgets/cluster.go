package budgets

import (
	"context"
	"fmt"
	"sort"
	"time"

	"github.com/samber/lo"
	corev1 "k8s.io/api/core/v1"
	metav1 "k8s.io/apimachinery/pkg/apis/meta/v1"
	"k8s.io/apimachinery/pkg/types"
	"sigs.k8s.io/controller-runtime/pkg/reconcile"

	v1 "sigs.k8s.io/karpenter/pkg/apis/v1"
	"sigs.k8s.io/karpenter/pkg/controllers/state"
	"sigs.k8s.io/karpenter/pkg/controllers/state/informer"
	"sigs.k8s.io/karpenter/pkg/state/cost"

	"verif/harness/trace"
	"verif/harness/world"
)

// Scenario is the constant part of a behaviour of BudgetRounds.tla.
type Scenario struct {
	Pools     map[string][]Budget `json:"pools"`     // pool -> budget list
	Replicas  map[string]int      `json:"replicas"`  // static pools: pool -> replicas
	PoolOf    []string            `json:"poolOf"`    // node i (1-based) -> pool
	KindOf    []string            `json:"kindOf"`    // node i -> empty | drifted | under
	InitPhase []string            `json:"initPhase"` // node i -> absent | claim | registered | init
	T0        int                 `json:"t0"`        // first instant, seconds after the horizon start
	Day       int                 `json:"day"`       // horizon start, days after the scenario epoch
}

// Step is one primitive step of a behaviour (history h of BudgetRounds.tla).
type Step struct {
	A      string `json:"a"`
	I      int    `json:"i"`
	To     int    `json:"to"`
	Sel    []int  `json:"sel"`
	During []Step `json:"during"` // round level: environment steps injected while the command waits for validation
}

type Behaviour struct {
	Scenario Scenario `json:"scenario"`
	Steps    []Step   `json:"steps"`
	Tag      string   `json:"tag"`
}

// sim is one cluster: the harness world, the real cluster state fed by the real informer controllers.
type sim struct {
	w       *world.World
	ctx     context.Context
	sc      Scenario
	anchor  time.Time
	cluster *state.Cluster
	ncCtrl  *informer.NodeClaimController
	nodeCtl *informer.NodeController
	npCtrl  *informer.NodePoolController
	podCtrl *informer.PodController
	cost    *cost.ClusterCost
	marked  map[int]bool // ghost: in-memory marks placed by the driver on behalf of the orchestration queue
	stepN   int
	poolNames []string
}

const strayNode = "stray-node"

const validationDelay = 15 * time.Second

func claimName(i int) string { return fmt.Sprintf("nc-%d", i) }
func nodeName(i int) string  { return fmt.Sprintf("node-%d", i) }
func pid(i int) string       { return fmt.Sprintf("verif://instance-%d", i) }

func newSim(sc Scenario, sink func(trace.M)) (*sim, error) {
	w := world.New()
	w.Prov.Types = world.DefaultCatalog()
	s := &sim{w: w, ctx: world.Ctx(), sc: sc, anchor: world.Epoch.AddDate(0, 0, sc.Day), marked: map[int]bool{}}
	w.Clock.SetTo(s.anchor.Add(time.Duration(sc.T0) * time.Second))
	w.Sink = sink
	s.cluster = state.NewCluster(w.Clock, w.Client, w.Prov)
	s.cost = cost.NewClusterCost(s.ctx, w.Prov, w.Client)
	s.ncCtrl = informer.NewNodeClaimController(w.Client, w.Prov, s.cluster, s.cost)
	s.nodeCtl = informer.NewNodeController(w.Client, s.cluster)
	s.npCtrl = informer.NewNodePoolController(w.Client, w.Prov, s.cluster, s.cost)
	s.podCtrl = informer.NewPodController(w.Client, s.cluster)
	w.EnvCreate(world.NodeClass())
	for name := range sc.Pools {
		s.poolNames = append(s.poolNames, name)
	}
	sort.Strings(s.poolNames)
	for _, name := range s.poolNames {
		np, manifest, err := PoolFromManifest(name, sc.Pools[name])
		if err != nil {
			return nil, fmt.Errorf("pool %s: manifest %s: %w", name, manifest, err)
		}
		if r, ok := sc.Replicas[name]; ok {
			np.Spec.Replicas = lo.ToPtr(int64(r))
		}
		w.EnvCreate(np)
		// what the nodepool validation / readiness controllers report for a healthy pool
		cur := &v1.NodePool{ObjectMeta: metav1.ObjectMeta{Name: name}}
		w.EnvMutate(cur, "PoolReady", func() {
			cur.StatusConditions().SetTrue(v1.ConditionTypeValidationSucceeded)
			cur.StatusConditions().SetTrue(v1.ConditionTypeNodeClassReady)
		})
		if _, err := s.npCtrl.Reconcile(s.ctx, reconcile.Request{NamespacedName: types.NamespacedName{Name: name}}); err != nil {
			return nil, fmt.Errorf("nodepool informer: %w", err)
		}
	}
	// a node Karpenter does not manage (no NodeClaim) that nevertheless carries a pool label: never counted
	if len(s.poolNames) > 0 {
		stray := &corev1.Node{ObjectMeta: metav1.ObjectMeta{Name: strayNode, Labels: map[string]string{
			corev1.LabelHostname: strayNode, v1.NodePoolLabelKey: s.poolNames[0], v1.NodeInitializedLabelKey: "true", v1.NodeRegisteredLabelKey: "true"}},
			Spec: corev1.NodeSpec{ProviderID: "verif://stray"}}
		world.SetNodeReady(stray, false, w.Clock.Now())
		w.EnvCreate(stray)
	}
	for i := 1; i <= len(sc.PoolOf); i++ {
		ph := sc.InitPhase[i-1]
		if ph == "claim" || ph == "registered" || ph == "init" {
			s.launch(i)
		}
		if ph == "registered" || ph == "init" {
			s.register(i)
		}
		if ph == "init" {
			s.initialize(i)
		}
	}
	s.deliver()
	return s, nil
}

func (s *sim) labels(i int) map[string]string {
	return map[string]string{v1.NodePoolLabelKey: s.sc.PoolOf[i-1], corev1.LabelInstanceTypeStable: "small",
		corev1.LabelTopologyZone: "zone-a", v1.CapacityTypeLabelKey: "on-demand", corev1.LabelArchStable: "amd64", corev1.LabelOSStable: "linux"}
}

func (s *sim) pool(i int) *v1.NodePool {
	np := &v1.NodePool{ObjectMeta: metav1.ObjectMeta{Name: s.sc.PoolOf[i-1]}}
	s.w.Get(np)
	return np
}

// launch: the NodeClaim as the lifecycle controller leaves it after a successful launch.
func (s *sim) launch(i int) {
	nc := world.NodeClaim(claimName(i), s.pool(i))
	for k, v := range s.labels(i) {
		nc.Labels[k] = v
	}
	nc.Finalizers = []string{v1.TerminationFinalizer}
	nc.Status.ProviderID = pid(i)
	nc.Status.Capacity = world.RL(2000, 4096)
	nc.Status.Allocatable = world.RL(1900, 3900)
	nc.StatusConditions().SetTrue(v1.ConditionTypeLaunched)
	s.w.EnvCreate(nc)
	// the fake client drops status on create: write it through the status sub-resource path of the environment
	cur := &v1.NodeClaim{ObjectMeta: metav1.ObjectMeta{Name: claimName(i)}}
	s.w.EnvMutate(cur, "Launched", func() {
		cur.Status = nc.Status
	})
}

func (s *sim) claim(i int) (*v1.NodeClaim, bool) {
	nc := &v1.NodeClaim{ObjectMeta: metav1.ObjectMeta{Name: claimName(i)}}
	ok := s.w.Get(nc)
	return nc, ok
}

func (s *sim) node(i int) (*corev1.Node, bool) {
	n := &corev1.Node{ObjectMeta: metav1.ObjectMeta{Name: nodeName(i)}}
	ok := s.w.Get(n)
	return n, ok
}

func (s *sim) register(i int) {
	nc, ok := s.claim(i)
	if !ok {
		return
	}
	n := world.NodeFor(nc, nodeName(i), false)
	for k, v := range s.labels(i) {
		n.Labels[k] = v
	}
	n.Labels[v1.NodeRegisteredLabelKey] = "true"
	n.Finalizers = []string{v1.TerminationFinalizer}
	world.SetNodeReady(n, true, s.w.Clock.Now())
	s.w.EnvCreate(n)
	cur := &corev1.Node{ObjectMeta: metav1.ObjectMeta{Name: nodeName(i)}}
	s.w.EnvMutate(cur, "NodeStatus", func() { cur.Status = n.Status })
	c2 := &v1.NodeClaim{ObjectMeta: metav1.ObjectMeta{Name: claimName(i)}}
	s.w.EnvMutate(c2, "Registered", func() {
		c2.Status.NodeName = nodeName(i)
		c2.StatusConditions().SetTrue(v1.ConditionTypeRegistered)
	})
}

func (s *sim) initialize(i int) {
	n := &corev1.Node{ObjectMeta: metav1.ObjectMeta{Name: nodeName(i)}}
	s.w.EnvMutate(n, "Initialized", func() { n.Labels[v1.NodeInitializedLabelKey] = "true" })
	c := &v1.NodeClaim{ObjectMeta: metav1.ObjectMeta{Name: claimName(i)}}
	s.w.EnvMutate(c, "Initialized", func() {
		c.StatusConditions().SetTrue(v1.ConditionTypeInitialized)
		// what the nodeclaim-disruption controller would have decided for this node's kind
		switch s.sc.KindOf[i-1] {
		case "drifted", "sdrifted":
			// drifted and not (yet) consolidatable, so that the (static) drift method - not emptiness - picks it
			c.StatusConditions().SetTrue(v1.ConditionTypeDrifted)
		default:
			c.StatusConditions().SetTrue(v1.ConditionTypeConsolidatable)
		}
	})
	// an underutilized node runs one small replicated pod that fits anywhere else
	if s.sc.KindOf[i-1] == "under" {
		name := fmt.Sprintf("p-%d", i)
		p := world.Pod(world.PodOpts{Name: name, Node: nodeName(i), CPU: 100, MemMi: 64, Owner: "replicaset", TGPS: -1,
			Labels: map[string]string{"app": name}})
		if cur := (&corev1.Pod{ObjectMeta: metav1.ObjectMeta{Name: name, Namespace: "default"}}); !s.w.Get(cur) {
			s.w.EnvCreate(p)
			s.w.EnvMutate(cur, "PodRunning", func() {
				cur.Status.Phase = corev1.PodRunning
				cur.Status.Conditions = []corev1.PodCondition{{Type: corev1.PodReady, Status: corev1.ConditionTrue}}
			})
		}
	}
}

// deliver runs the real informer controllers for every object of the scenario (a fully caught-up informer).
func (s *sim) deliver() {
	for i := 1; i <= len(s.sc.PoolOf); i++ {
		_, _ = s.ncCtrl.Reconcile(s.ctx, reconcile.Request{NamespacedName: types.NamespacedName{Name: claimName(i)}})
		_, _ = s.nodeCtl.Reconcile(s.ctx, reconcile.Request{NamespacedName: types.NamespacedName{Name: nodeName(i)}})
	}
	_, _ = s.nodeCtl.Reconcile(s.ctx, reconcile.Request{NamespacedName: types.NamespacedName{Name: strayNode}})
	for i := 1; i <= len(s.sc.PoolOf); i++ {
		if s.sc.KindOf[i-1] == "under" {
			_, _ = s.podCtrl.Reconcile(s.ctx, reconcile.Request{NamespacedName: types.NamespacedName{Namespace: "default", Name: fmt.Sprintf("p-%d", i)}})
		}
	}
}

func (s *sim) now() int { return int(s.w.Clock.Now().Sub(s.anchor) / time.Second) }

// env executes one environment / queue step on the world. It returns false if the step does not apply
// to the real state (logged as Skip by the caller; the model and the world can only differ when an
// earlier step was skipped).
func (s *sim) env(st Step) bool {
	w := s.w
	i := st.I
	s.stepN++
	switch st.A {
	case "Launch":
		if _, ok := s.claim(i); ok {
			return false
		}
		s.launch(i)
	case "Register":
		if _, ok := s.node(i); ok {
			return false
		}
		if _, ok := s.claim(i); !ok {
			return false
		}
		s.register(i)
	case "Initialize":
		if _, ok := s.node(i); !ok {
			return false
		}
		s.initialize(i)
	case "NotReady":
		n := &corev1.Node{ObjectMeta: metav1.ObjectMeta{Name: nodeName(i)}}
		// three ways of not being ready: False, Unknown, no Ready condition at all
		how := (s.stepN + i) % 3
		return w.EnvMutate(n, "NotReady", func() {
			switch how {
			case 0:
				world.SetNodeReady(n, false, w.Clock.Now())
			case 1:
				world.SetNodeReady(n, false, w.Clock.Now())
				for k := range n.Status.Conditions {
					if n.Status.Conditions[k].Type == corev1.NodeReady {
						n.Status.Conditions[k].Status = corev1.ConditionUnknown
					}
				}
			default:
				var keep []corev1.NodeCondition
				for _, c := range n.Status.Conditions {
					if c.Type != corev1.NodeReady {
						keep = append(keep, c)
					}
				}
				n.Status.Conditions = keep
			}
		})
	case "Ready":
		n := &corev1.Node{ObjectMeta: metav1.ObjectMeta{Name: nodeName(i)}}
		return w.EnvMutate(n, "Ready", func() { world.SetNodeReady(n, true, w.Clock.Now()) })
	case "DeleteClaim", "Complete":
		nc, ok := s.claim(i)
		if !ok {
			return false
		}
		actor := "env"
		if st.A == "Complete" {
			actor = "queue-standin"
		}
		if err := w.Client.Delete(world.WithActor(context.Background(), actor), nc); err != nil {
			return false
		}
	case "DeleteNode":
		n, ok := s.node(i)
		if !ok {
			return false
		}
		if err := w.Client.Delete(world.WithActor(context.Background(), "env"), n); err != nil {
			return false
		}
	case "Terminate":
		c := &v1.NodeClaim{ObjectMeta: metav1.ObjectMeta{Name: claimName(i)}}
		return w.EnvMutate(c, "InstanceTerminating", func() { c.StatusConditions().SetTrue(v1.ConditionTypeInstanceTerminating) })
	case "Gone":
		n := &corev1.Node{ObjectMeta: metav1.ObjectMeta{Name: nodeName(i)}}
		w.EnvRemove(n, "NodeGone")
		c := &v1.NodeClaim{ObjectMeta: metav1.ObjectMeta{Name: claimName(i)}}
		if !w.EnvRemove(c, "ClaimGone") {
			return false
		}
		w.EnvRemove(&corev1.Pod{ObjectMeta: metav1.ObjectMeta{Name: fmt.Sprintf("p-%d", i), Namespace: "default"}}, "PodGone")
		delete(s.marked, i)
	case "Tick":
		w.Clock.SetTo(s.anchor.Add(time.Duration(st.To) * time.Second))
	default:
		return false
	}
	return true
}

// table is the abstraction of the API objects (plus the ghost marks) into the node records of
// BudgetGuards.tla; it never looks at Karpenter's cluster state.
func (s *sim) table() []trace.M {
	out := []trace.M{}
	for i := 1; i <= len(s.sc.PoolOf); i++ {
		nc, hasClaim := s.claim(i)
		n, hasNode := s.node(i)
		rec := trace.M{"name": nodeName(i), "pool": s.sc.PoolOf[i-1], "managed": hasClaim, "initialized": false, "ready": false,
			"marked": s.marked[i], "deleting": false, "nodeDeleting": false, "terminating": false}
		if hasClaim {
			rec["initialized"] = hasNode && nc.StatusConditions().Get(v1.ConditionTypeInitialized).IsTrue()
			rec["deleting"] = !nc.DeletionTimestamp.IsZero()
			rec["terminating"] = nc.StatusConditions().Get(v1.ConditionTypeInstanceTerminating).IsTrue()
		}
		if hasNode {
			rec["nodeDeleting"] = !n.DeletionTimestamp.IsZero()
			for _, c := range n.Status.Conditions {
				if c.Type == corev1.NodeReady && c.Status == corev1.ConditionTrue {
					rec["ready"] = true
				}
			}
		}
		out = append(out, rec)
	}
	if len(s.poolNames) > 0 {
		out = append(out, trace.M{"name": strayNode, "pool": s.poolNames[0], "managed": false, "initialized": true, "ready": false,
			"marked": false, "deleting": false, "nodeDeleting": false, "terminating": false})
	}
	return out
}

// absBudgets renders a pool's abstract budgets with the cron library's hits near the instant.
func (s *sim) absBudgets(bs []Budget, now int) ([]trace.M, error) {
	out := []trace.M{}
	for _, b := range bs {
		hits := []int{}
		if b.Cron != "-" && (b.Mal == "-" || b.Mal == "sched-only") {
			d := b.Dur
			if d < 0 {
				d = 0
			}
			lh, ok := libHits(b.Cron, s.anchor, now-d-2, now+2)
			if !ok {
				return nil, fmt.Errorf("schedule %q does not parse", b.Cron)
			}
			hits = lh
		}
		out = append(out, absBudget(b, hits))
	}
	return out, nil
}
