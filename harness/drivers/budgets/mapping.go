package budgets

import (
	"encoding/json"
	"flag"
	"fmt"
	"os"

	v1 "sigs.k8s.io/karpenter/pkg/apis/v1"
	"sigs.k8s.io/karpenter/pkg/controllers/disruption"

	"verif/harness/reg"
	"verif/harness/trace"
)

func init() { reg.Register("budgets-map", Mapping) }

var reasons = []v1.DisruptionReason{v1.DisruptionReasonEmpty, v1.DisruptionReasonDrifted, v1.DisruptionReasonUnderutilized}

// observe calls the real BuildDisruptionBudgetMapping for every reason and records the result next to
// the abstraction of the API state.
func (s *sim) observe() error {
	tb := s.table()
	now := s.now()
	for _, r := range reasons {
		res, err := disruption.BuildDisruptionBudgetMapping(s.ctx, s.cluster, s.w.Clock, s.w.Client, s.w.Prov, s.w.Rec, r)
		if err != nil {
			return fmt.Errorf("BuildDisruptionBudgetMapping: %w", err)
		}
		pools := []trace.M{}
		for _, p := range s.poolNames {
			bs, err := s.absBudgets(s.sc.Pools[p], now)
			if err != nil {
				return err
			}
			v, present := res[p]
			pools = append(pools, trace.M{"pool": p, "present": present, "res": clamp32(v), "budgets": bs})
		}
		s.w.Emit(trace.M{"e": "Call", "fn": "Map", "reason": string(r), "now": now, "pools": pools, "nodes": tb})
	}
	return nil
}

// mark / unmark stand in for the orchestration queue's in-memory bookkeeping (mapping level only).
func (s *sim) mark(sel []int) {
	ids := []string{}
	for _, i := range sel {
		if _, ok := s.claim(i); ok {
			ids = append(ids, pid(i))
			s.marked[i] = true
		}
	}
	s.cluster.MarkForDeletion(ids...)
}

func (s *sim) unmark(i int) {
	s.cluster.UnmarkForDeletion(pid(i))
	delete(s.marked, i)
}

// Mapping replays behaviours of BudgetRounds.tla on a world whose cluster state is hydrated by the real
// informer controllers; after every step BuildDisruptionBudgetMapping is observed for every reason.
func Mapping(args []string) error {
	fs := flag.NewFlagSet("budgets-map", flag.ContinueOnError)
	in := fs.String("in", "", "behaviours JSON")
	out := fs.String("out", "traces", "output directory")
	shards := fs.Int("shards", 4, "trace shards")
	if err := fs.Parse(args); err != nil {
		return err
	}
	raw, err := os.ReadFile(*in)
	if err != nil {
		return err
	}
	var behs []Behaviour
	if err := json.Unmarshal(raw, &behs); err != nil {
		return err
	}
	tw, err := trace.NewWriter(*out, "budgets-map", *shards)
	if err != nil {
		return err
	}
	skipped, observed := 0, 0
	for bi, b := range behs {
		tw.Begin(trace.M{"level": "mapping", "beh": bi, "tag": b.Tag})
		s, err := newSim(b.Scenario, nil)
		if err != nil {
			return err
		}
		// the world's own Api/Env events are not needed at this level (the node table is logged with every observation)
		s.w.Sink = func(ev trace.M) {
			if e := ev["e"]; e == "Call" || e == "Step" {
				tw.Emit(ev)
			}
		}
		if err := s.observe(); err != nil {
			return err
		}
		observed += 3
		for _, st := range b.Steps {
			ok := true
			switch st.A {
			case "Round":
				// the model's controller steps are replaced by their effects (Start / EndRound) at this level
			case "EndRound":
				s.w.Clock.Step(validationDelay)
			case "Start":
				s.mark(st.Sel)
			case "Fail":
				s.unmark(st.I)
			default:
				ok = s.env(st)
			}
			sel := st.Sel
			if sel == nil {
				sel = []int{}
			}
			s.w.Emit(trace.M{"e": "Step", "a": st.A, "i": st.I, "sel": sel, "applied": ok, "during": false})
			if !ok {
				skipped++
			}
			s.deliver()
			if err := s.observe(); err != nil {
				return err
			}
			observed += 3
		}
	}
	paths := tw.Close()
	sum, _ := json.Marshal(trace.M{"traces": tw.N, "lines": tw.Lines, "files": paths, "skipped": skipped, "observed": observed})
	fmt.Println(string(sum))
	return nil
}
