package budgets

import (
	"encoding/json"
	"flag"
	"fmt"
	"os"
	"sort"
	"strings"
	"time"

	"github.com/google/uuid"

	"sigs.k8s.io/karpenter/pkg/controllers/disruption"
	"sigs.k8s.io/karpenter/pkg/controllers/dynamicresources/deviceallocation"
	"sigs.k8s.io/karpenter/pkg/controllers/provisioning"
	"sigs.k8s.io/karpenter/pkg/controllers/state/informer"
	"sigs.k8s.io/karpenter/pkg/state/virtualpods"

	"verif/harness/reg"
	"verif/harness/trace"
	"verif/harness/world"
)

func init() { reg.Register("budgets-rounds", Rounds) }

// roundSim adds the real disruption controller and orchestration queue to a sim.
type roundSim struct {
	*sim
	queue *disruption.Queue
	ctrl  *disruption.Controller
	emit  func(trace.M)

	pending     []Step // environment steps to inject while the command waits for validation
	inRound     bool
	lastBudgetT int // instant of the controller's most recent budget computation (NodePool list), -1 = none this round
}

func newRoundSim(sc Scenario, emit func(trace.M)) (*roundSim, error) {
	s, err := newSim(sc, nil)
	if err != nil {
		return nil, err
	}
	r := &roundSim{sim: s, emit: emit, lastBudgetT: -1}
	w := s.w
	// pricing feeds the cluster cost used for scoring; run once like the operator does at start-up
	_, _ = informer.NewPricingController(w.Client, w.Prov, s.cost).Reconcile(s.ctx)
	prov := provisioning.NewProvisioner(w.Client, w.Rec, w.Prov, s.cluster, w.Clock, deviceallocation.NewController(w.Client),
		virtualpods.NewVirtualPodCache(w.Client))
	r.queue = disruption.NewQueue(w.Client, w.Rec, s.cluster, w.Clock, prov)
	r.ctrl = disruption.NewController(w.Clock, w.Client, prov, w.Prov, w.Rec, s.cluster, r.queue, s.cost)
	// only the events the trace specification consumes are kept (the node table is logged with every guarded event)
	w.Sink = func(ev trace.M) {
		switch ev["e"] {
		case "Call", "Step", "Start", "Begin", "End", "Tick":
			emit(ev)
		case "Api":
			// the controller's own writes: kept small (no post object) for diagnosis and for the start-observation count
			if a, _ := ev["actor"].(string); strings.HasPrefix(a, "disruption") {
				emit(trace.M{"e": "Api", "actor": a, "verb": ev["verb"], "kind": ev["kind"], "name": ev["name"], "sub": ev["sub"],
					"err": ev["err"], "seq": ev["seq"], "t": ev["t"]})
			}
		}
	}
	// the instant of a budget computation: BuildDisruptionBudgetMapping lists the NodePools
	w.Gate = func(c world.Call) {
		if r.inRound && c.Actor == "disruption" && c.Verb == "list" && c.Kind == "NodePool" {
			r.lastBudgetT = s.now()
		}
	}
	// the validation wait advances the virtual clock: this is where the environment moves "meanwhile"
	orig := w.Clock.OnTick
	w.Clock.OnTick = func(to time.Time) {
		if orig != nil {
			orig(to)
		}
		if r.inRound && r.pending != nil {
			steps := r.pending
			r.pending = nil
			for _, st := range steps {
				ok := s.env(st)
				w.Emit(trace.M{"e": "Step", "a": st.A, "i": st.I, "sel": []int{}, "applied": ok, "during": true})
			}
			s.deliver()
		}
	}
	return r, nil
}

func (r *roundSim) commandIDs() map[uuid.UUID]*disruption.Command {
	out := map[uuid.UUID]*disruption.Command{}
	for _, c := range r.queue.GetCommands() {
		out[c.ID] = c
	}
	return out
}

func indexOfClaim(name string) int {
	var i int
	if _, err := fmt.Sscanf(name, "nc-%d", &i); err != nil {
		return 0
	}
	return i
}

// round runs one reconcile of the real disruption controller and records every command it started.
func (r *roundSim) round(during []Step) error {
	w := r.w
	before := r.commandIDs()
	r.pending = during
	if r.pending == nil {
		r.pending = []Step{}
	}
	r.inRound, r.lastBudgetT = true, -1
	w.Emit(trace.M{"e": "Begin", "controller": "disruption"})
	errS, panicked := "-", false
	func() {
		defer func() {
			if x := recover(); x != nil {
				panicked, errS = true, fmt.Sprint(x)
			}
		}()
		if _, err := r.ctrl.Reconcile(r.ctx); err != nil {
			errS = "error"
			if os.Getenv("VERIF_DEBUG") != "" {
				fmt.Fprintln(os.Stderr, "reconcile error:", err)
			}
		}
	}()
	r.inRound = false
	leftover := r.pending
	r.pending = nil
	w.Emit(trace.M{"e": "End", "controller": "disruption", "err": errS, "panic": panicked})
	if panicked {
		return fmt.Errorf("disruption controller panicked: %s", errS)
	}
	// the API state at the start of the command: nothing but the controller itself wrote since the validation wait
	tb := r.table()
	// environment steps the controller never waited for happen right after the round (after its commands are recorded)
	defer func() {
		for _, st := range leftover {
			ok := r.env(st)
			w.Emit(trace.M{"e": "Step", "a": st.A, "i": st.I, "sel": []int{}, "applied": ok, "during": false})
		}
	}()
	var started []*disruption.Command
	for id, c := range r.commandIDs() {
		if _, old := before[id]; !old {
			started = append(started, c)
		}
	}
	sort.Slice(started, func(i, j int) bool { return started[i].ID.String() < started[j].ID.String() })
	for _, c := range started {
		sel := []int{}
		for _, cand := range c.Candidates {
			if i := indexOfClaim(cand.NodeClaim.Name); i > 0 {
				sel = append(sel, i)
				r.marked[i] = true
			}
		}
		sort.Ints(sel)
		t := r.lastBudgetT
		if t < 0 {
			t = r.now()
		}
		pools := []trace.M{}
		for _, p := range r.poolNames {
			bs, err := r.absBudgets(r.sc.Pools[p], t)
			if err != nil {
				return err
			}
			pools = append(pools, trace.M{"pool": p, "budgets": bs})
		}
		w.Emit(trace.M{"e": "Start", "reason": string(c.Reason()), "method": fmt.Sprintf("%T", c.Method), "sel": sel,
			"replacements": len(c.Replacements), "computed": t, "now": r.now(), "nodes": tb, "pools": pools})
	}
	return nil
}

// queueStep runs the real orchestration queue for the command that holds node i.
func (r *roundSim) queueStep(i int) bool {
	nc, ok := r.claim(i)
	if !ok || !r.queue.HasAny(pid(i)) {
		return false
	}
	var cmd *disruption.Command
	for _, c := range r.queue.GetCommands() {
		for _, cand := range c.Candidates {
			if cand.NodeClaim.Name == nc.Name {
				cmd = c
			}
		}
	}
	if _, err := r.queue.Reconcile(r.ctx, nc); err != nil {
		return false
	}
	// a command that did not succeed is rolled back: its candidates are unmarked
	if cmd != nil && !cmd.Succeeded && !r.queue.HasAny(pid(i)) {
		for _, cand := range cmd.Candidates {
			if j := indexOfClaim(cand.NodeClaim.Name); j > 0 {
				delete(r.marked, j)
				r.w.Emit(trace.M{"e": "Step", "a": "Fail", "i": j, "sel": []int{}, "applied": true, "during": false})
			}
		}
	}
	return true
}

// Rounds replays behaviours of BudgetRounds.tla with the real disruption controller running the rounds.
func Rounds(args []string) error {
	fs := flag.NewFlagSet("budgets-rounds", flag.ContinueOnError)
	in := fs.String("in", "", "behaviours JSON")
	out := fs.String("out", "traces", "output directory")
	shards := fs.Int("shards", 4, "trace shards")
	if err := fs.Parse(args); err != nil {
		return err
	}
	raw, err := os.ReadFile(*in)
	if err != nil {
		return err
	}
	var behs []Behaviour
	if err := json.Unmarshal(raw, &behs); err != nil {
		return err
	}
	tw, err := trace.NewWriter(*out, "budgets-rounds", *shards)
	if err != nil {
		return err
	}
	skipped := 0
	for bi, b := range behs {
		tw.Begin(trace.M{"level": "rounds", "beh": bi, "tag": b.Tag})
		r, err := newRoundSim(b.Scenario, tw.Emit)
		if err != nil {
			return err
		}
		if err := r.observe(); err != nil {
			return err
		}
		for _, st := range b.Steps {
			ok := true
			switch st.A {
			case "Round":
				if err := r.round(st.During); err != nil {
					return fmt.Errorf("behaviour %d: %w", bi, err)
				}
			case "Queue":
				ok = r.queueStep(st.I)
			default:
				ok = r.env(st)
			}
			r.w.Emit(trace.M{"e": "Step", "a": st.A, "i": st.I, "sel": []int{}, "applied": ok, "during": false})
			if !ok {
				skipped++
			}
			r.deliver()
			if err := r.observe(); err != nil {
				return err
			}
		}
	}
	paths := tw.Close()
	sum, _ := json.Marshal(trace.M{"traces": tw.N, "lines": tw.Lines, "files": paths, "skipped": skipped})
	fmt.Println(string(sum))
	return nil
}
