package drivers

import (
	"verif/harness/drivers/health"
)

// Registry maps driver names to entry points.
var Registry = map[string]func(args []string) error{
	"health-unit": health.Unit,
}
