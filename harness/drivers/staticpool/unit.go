// Package staticpool binds StaticPool.tla / StaticPoolUnit.tla (C03, static NodePools) to the real code:
// level 1 (this file) replays call sequences on the real state.NodePoolState, level 2 (ctrl.go) runs the
// real static provisioning / deprovisioning / disruption controllers on the world harness.
package staticpool

import (
	"encoding/json"
	"flag"
	"fmt"
	"os"
	"reflect"
	"sort"
	"strconv"
	"strings"
	"sync"
	"sync/atomic"
	"unsafe"

	metav1 "k8s.io/apimachinery/pkg/apis/meta/v1"

	v1 "sigs.k8s.io/karpenter/pkg/apis/v1"
	"sigs.k8s.io/karpenter/pkg/controllers/state"

	"verif/harness/reg"
	"verif/harness/trace"
)

func init() { reg.Register("staticpool-unit", Unit) }

const unitPool = "pool-1"

// Call is one NodePoolState method call of a behaviour.
type Call struct {
	M     string `json:"m"` // Reserve | Release | Update | MarkActive | MarkDeleting | MarkPending | Cleanup
	N     int    `json:"n"`
	Limit int    `json:"limit"`
	K     int    `json:"k"`
	Mfd   bool   `json:"mfd"`
}

func claimName(i int) string { return "nc-" + strconv.Itoa(i) }

func claimIdx(name string) int {
	i, err := strconv.Atoi(strings.TrimPrefix(name, "nc-"))
	if err != nil {
		return -1
	}
	return i
}

// unexported reads a private field of the NodePoolState (observation only; no hook in /repo needed).
func unexported(ps *state.NodePoolState, field string) reflect.Value {
	f := reflect.ValueOf(ps).Elem().FieldByName(field)
	if !f.IsValid() {
		panic("state.NodePoolState has no field " + field + " (harness must follow the struct)")
	}
	return reflect.NewAt(f.Type(), unsafe.Pointer(f.UnsafeAddr())).Elem()
}

// Snapshot projects the struct: entry existence, the three sets, the reserved counter, the mapped claims.
// nameIdx maps a claim name to the integer the specification uses.
func Snapshot(ps *state.NodePoolState, pool string, nameIdx func(string) int) trace.M {
	a, d, p := ps.GetNodeCount(pool)
	// the struct's own lock: controllers' goroutines call its methods while the driver observes
	mu := unexported(ps, "mu").Addr().Interface().(*sync.RWMutex)
	mu.RLock()
	defer mu.RUnlock()
	st := unexported(ps, "nodePoolNameToNodeClaimState").Interface().(map[string]state.NodeClaimState)
	lim := unexported(ps, "nodePoolNameToNodePoolLimit").Interface().(map[string]*atomic.Int64)
	mp := unexported(ps, "nodeClaimNameToNodePoolName").Interface().(map[string]string)
	ints := func(names []string) []int {
		out := []int{}
		for _, n := range names {
			out = append(out, nameIdx(n))
		}
		sort.Ints(out)
		return out
	}
	m := trace.M{"entry": false, "act": []int{}, "del": []int{}, "pend": []int{}, "res": 0, "hasLimit": false, "map": []int{}}
	if e, ok := st[pool]; ok {
		m["entry"] = true
		m["act"] = ints(e.Active.UnsortedList())
		m["del"] = ints(e.Deleting.UnsortedList())
		m["pend"] = ints(e.PendingDisruption.UnsortedList())
	}
	if l, ok := lim[pool]; ok {
		m["hasLimit"] = true
		m["res"] = int(l.Load())
	}
	var mapped []string
	for k, v := range mp {
		if v == pool {
			mapped = append(mapped, k)
		}
	}
	m["map"] = ints(mapped)
	m["nAct"], m["nDel"], m["nPend"] = a, d, p
	return m
}

func claimObj(name, pool string) *v1.NodeClaim {
	return &v1.NodeClaim{ObjectMeta: metav1.ObjectMeta{Name: name, Labels: map[string]string{v1.NodePoolLabelKey: pool}}}
}

// apply performs one call on the real struct; a panic is recovered and reported (the struct's deferred
// Unlock has run by then, so the replay can go on).
func apply(ps *state.NodePoolState, c Call) (granted int, panicked bool, msg string) {
	granted = -1
	defer func() {
		if r := recover(); r != nil {
			panicked, msg = true, fmt.Sprint(r)
		}
	}()
	switch c.M {
	case "Reserve":
		granted = int(ps.ReserveNodeCount(unitPool, int64(c.Limit), int64(c.K)))
	case "Release":
		ps.ReleaseNodeCount(unitPool, int64(c.K))
	case "Update":
		ps.UpdateNodeClaim(claimObj(claimName(c.N), unitPool), c.Mfd)
	case "MarkActive":
		ps.MarkNodeClaimActive(unitPool, claimName(c.N))
	case "MarkDeleting":
		ps.MarkNodeClaimDeleting(unitPool, claimName(c.N))
	case "MarkPending":
		ps.MarkNodeClaimPendingDisruption(unitPool, claimName(c.N))
	case "Cleanup":
		ps.Cleanup(claimName(c.N))
	default:
		panic("unknown call " + c.M)
	}
	return
}

// Unit replays behaviours (lists of calls) on a fresh real NodePoolState each and records, after every
// call, the result, whether it panicked and the projection of the struct.
func Unit(args []string) error {
	fs := flag.NewFlagSet("staticpool-unit", flag.ContinueOnError)
	in := fs.String("in", "", "behaviours JSON (list of lists of calls)")
	out := fs.String("out", "traces", "output directory")
	shards := fs.Int("shards", 4, "trace shards")
	if err := fs.Parse(args); err != nil {
		return err
	}
	raw, err := os.ReadFile(*in)
	if err != nil {
		return err
	}
	var behs [][]Call
	if err := json.Unmarshal(raw, &behs); err != nil {
		return err
	}
	w, err := trace.NewWriter(*out, "staticpool-unit", *shards)
	if err != nil {
		return err
	}
	for _, b := range behs {
		w.Begin(trace.M{"level": "unit"})
		ps := state.NewNodePoolState()
		for _, c := range b {
			granted, panicked, _ := apply(ps, c)
			w.Emit(trace.M{"e": "Call", "m": c.M, "n": c.N, "limit": c.Limit, "k": c.K, "mfd": c.Mfd,
				"granted": granted, "panic": panicked, "post": Snapshot(ps, unitPool, claimIdx)})
		}
	}
	paths := w.Close()
	sum, _ := json.Marshal(trace.M{"traces": w.N, "lines": w.Lines, "files": paths})
	fmt.Println(string(sum))
	return nil
}
