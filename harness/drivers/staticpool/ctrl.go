package staticpool

// Binding level 2 of C03-static: the real static provisioning / deprovisioning controllers, the real disruption
// controller restricted to the StaticDrift method with the real orchestration Queue, the real NodeClaim / Node
// informer controllers and the state nodeclaim GC run against the world harness.  A behaviour is a history of
// StaticPool.tla at API-call granularity (Grain = "gate"): the reconciles of the three gated controllers run in
// goroutines that block at the API choke point (World.Gate) before the calls the model treats as scheduling points;
// informer deliveries, queue reconciles and environment steps run on the driver's goroutine in between.  The driver
// only records: API events (choke point), a projection of the NodePoolState after every step, recovered panics and,
// once the behaviour's environment is quiet and every controller has run to a fix-point, the NodeClaim count.

import (
	"context"
	"encoding/json"
	"flag"
	"fmt"
	"os"
	"runtime"
	"strings"
	"sync"
	"time"

	corev1 "k8s.io/api/core/v1"
	"k8s.io/apimachinery/pkg/api/resource"
	metav1 "k8s.io/apimachinery/pkg/apis/meta/v1"
	"k8s.io/apimachinery/pkg/types"
	utilruntime "k8s.io/apimachinery/pkg/util/runtime"
	"sigs.k8s.io/controller-runtime/pkg/client"
	"sigs.k8s.io/controller-runtime/pkg/reconcile"

	v1 "sigs.k8s.io/karpenter/pkg/apis/v1"
	"sigs.k8s.io/karpenter/pkg/controllers/disruption"
	"sigs.k8s.io/karpenter/pkg/controllers/dynamicresources/deviceallocation"
	"sigs.k8s.io/karpenter/pkg/controllers/provisioning"
	"sigs.k8s.io/karpenter/pkg/controllers/state"
	"sigs.k8s.io/karpenter/pkg/controllers/state/informer"
	"sigs.k8s.io/karpenter/pkg/controllers/state/nodeclaimgc"
	staticdeprov "sigs.k8s.io/karpenter/pkg/controllers/static/deprovisioning"
	staticprov "sigs.k8s.io/karpenter/pkg/controllers/static/provisioning"
	"sigs.k8s.io/karpenter/pkg/state/cost"
	"sigs.k8s.io/karpenter/pkg/state/virtualpods"
	"sigs.k8s.io/karpenter/pkg/utils/resources"

	"github.com/samber/lo"

	"verif/harness/reg"
	"verif/harness/trace"
	"verif/harness/world"
)

func init() { reg.Register("staticpool-ctrl", Ctrl) }

const (
	ctlPool   = "static-1"
	actorProv = "static.provisioning"
	actorDep  = "static.deprovisioning"
	actorDis  = "disruption"
)

// Step is one action of a StaticPool.tla history (fields as in the model's history records).
type Step struct {
	A       string `json:"a"`
	N       int    `json:"n"`
	C       int    `json:"c"`
	R       int    `json:"r"`
	Ok      *bool  `json:"ok"`
	What    string `json:"what"`
	Timeout bool   `json:"timeout"`
	W       []any  `json:"w"`
}

type CtlCfg struct {
	Pre       int  `json:"pre"`
	Limit     int  `json:"limit"`
	Replicas0 int  `json:"replicas0"`
	Budget    int  `json:"budget"` // disruption budget (nodes) of the pool = Budget of StaticPool.tla; 0 = 1
	Probe     bool `json:"probe"`  // after settling, scale to the limit and settle again
}

type CtlBehaviour struct {
	Cfg   CtlCfg `json:"cfg"`
	Steps []Step `json:"steps"`
	Tag   string `json:"tag"`
}

type waiter struct {
	call world.Call
	ch   chan struct{}
}

type procState struct {
	running bool
	done    chan struct{}
}

type sim struct {
	w       *world.World
	ctx     context.Context
	cfg     CtlCfg
	cluster *state.Cluster
	prov    *staticprov.Controller
	dep     *staticdeprov.Controller
	dis     *disruption.Controller
	queue   *disruption.Queue
	ncInf   *informer.NodeClaimController
	nodeInf *informer.NodeController
	gc      *nodeclaimgc.Controller

	mu       sync.Mutex
	names    []string // model claim index (1-based) -> real NodeClaim name, in creation order
	waiters  []*waiter
	gating   bool
	auto     map[string]bool // call keys released without holding (retries of a call that was made to fail)
	procs    map[string]*procState
	disRes0  int  // reserved counter when the disruption round started
	panics   int  // recovered panics (monotone)
	writes   int  // API writes seen (monotone), for fix-point detection
	timeouts int
	baseG    int // goroutines before any reconcile was started
}

func callKey(c world.Call) string { return c.Actor + "/" + c.Verb + "/" + c.Kind + "/" + c.Name + "/" + c.Sub }

// ---------------------------------------------------------------- name mapping
func (s *sim) idx(name string) int {
	s.mu.Lock()
	defer s.mu.Unlock()
	for i, n := range s.names {
		if n == name {
			return i + 1
		}
	}
	return -1
}

func (s *sim) name(i int) (string, bool) {
	s.mu.Lock()
	defer s.mu.Unlock()
	if i < 1 || i > len(s.names) {
		return "", false
	}
	return s.names[i-1], true
}

func nodeNameFor(claim string) string { return "node-" + claim }

// ---------------------------------------------------------------- the gate (API choke point as scheduler)
func (s *sim) holdable(c world.Call) bool {
	if !s.gating || s.auto[callKey(c)] {
		return false
	}
	switch c.Actor {
	case actorProv:
		return (c.Verb == "get" && c.Kind == "NodePool") || (c.Verb == "create" && c.Kind == "NodeClaim")
	case actorDep:
		return (c.Verb == "list" && c.Kind == "NodeClaim") || (c.Verb == "delete" && c.Kind == "NodeClaim")
	case actorDis:
		if (c.Verb == "get" && c.Kind == "NodePool") || (c.Verb == "create" && c.Kind == "NodeClaim") {
			return true
		}
		// markDisrupted's taint patch (after StaticDrift reserved), not the stale-taint cleanup at the start of a round
		if c.Verb == "patch" && c.Kind == "Node" {
			return s.snapRes() > s.disRes0
		}
	}
	return false
}

func (s *sim) gate(c world.Call) {
	s.mu.Lock()
	hold := s.holdable(c)
	var wt *waiter
	if hold {
		wt = &waiter{call: c, ch: make(chan struct{})}
		s.waiters = append(s.waiters, wt)
	}
	s.mu.Unlock()
	if hold {
		<-wt.ch
	}
}

func (s *sim) snapRes() int {
	return Snapshot(s.cluster.NodePoolState, ctlPool, func(string) int { return 0 })["res"].(int)
}

func (s *sim) nWaiting(pred func(world.Call) bool) int {
	s.mu.Lock()
	defer s.mu.Unlock()
	n := 0
	for _, wt := range s.waiters {
		if pred(wt.call) {
			n++
		}
	}
	return n
}

// release lets the first held call matching pred proceed; false if there is none.
func (s *sim) release(pred func(world.Call) bool) bool {
	s.mu.Lock()
	defer s.mu.Unlock()
	for i, wt := range s.waiters {
		if pred(wt.call) {
			s.waiters = append(s.waiters[:i], s.waiters[i+1:]...)
			close(wt.ch)
			return true
		}
	}
	return false
}

// waitFor polls until cond holds; the in-memory tail of a released call takes microseconds, the bound only matters
// when the expected effect does not happen (then the behaviour goes on from whatever state the code is in).
func (s *sim) waitFor(cond func() bool, max time.Duration) bool {
	deadline := time.Now().Add(max)
	for i := 0; ; i++ {
		if cond() {
			return true
		}
		if time.Now().After(deadline) {
			s.timeouts++
			return false
		}
		if i < 200 {
			runtime.Gosched()
		} else {
			time.Sleep(100 * time.Microsecond)
		}
	}
}

// goroutinesSettled waits until no goroutine is created or ends any more: a worker of ParallelizeUntil signals its
// WaitGroup before its deferred HandleCrash runs, so a panic may be reported after the reconcile has returned.
func (s *sim) goroutinesSettled() {
	same, last := 0, runtime.NumGoroutine()
	for i := 0; i < 400 && same < 4; i++ {
		time.Sleep(50 * time.Microsecond)
		if n := runtime.NumGoroutine(); n == last {
			same++
		} else {
			same, last = 0, n
		}
	}
}

// pause waits briefly for cond without counting a miss (the expected effect is optional)
func pause(cond func() bool, max time.Duration) {
	deadline := time.Now().Add(max)
	for !cond() && time.Now().Before(deadline) {
		time.Sleep(50 * time.Microsecond)
	}
}

func (s *sim) procDone(p string) bool {
	s.mu.Lock()
	defer s.mu.Unlock()
	ps := s.procs[p]
	return ps == nil || !ps.running
}

// start runs a reconcile of a gated controller in its own goroutine.
func (s *sim) start(p string, f func() error) {
	s.mu.Lock()
	s.procs[p] = &procState{running: true, done: make(chan struct{})}
	st := s.procs[p]
	s.mu.Unlock()
	s.w.Emit(trace.M{"e": "Begin", "controller": p})
	go func() {
		errS, panicked := "-", false
		defer func() {
			if r := recover(); r != nil {
				panicked = true
				s.recordPanic(r, "reconcile")
			}
			s.w.Emit(trace.M{"e": "End", "controller": p, "err": errS, "panic": panicked})
			s.mu.Lock()
			st.running = false
			s.mu.Unlock()
			close(st.done)
		}()
		if err := f(); err != nil {
			errS = "error"
		}
	}()
}

// recordPanic logs a recovered panic with the innermost Karpenter frame and the NodePoolState at that instant.
func (s *sim) recordPanic(r any, where string) {
	pcs := make([]uintptr, 64)
	n := runtime.Callers(2, pcs)
	frames := runtime.CallersFrames(pcs[:n])
	fn := "-"
	for {
		fr, more := frames.Next()
		if strings.Contains(fr.Function, "sigs.k8s.io/karpenter/pkg/") {
			fn = fr.Function[strings.LastIndex(fr.Function, "/")+1:]
			break
		}
		if !more {
			break
		}
	}
	msg := fmt.Sprint(r)
	if len(msg) > 120 {
		msg = msg[:120]
	}
	s.mu.Lock()
	s.panics++
	s.mu.Unlock()
	s.w.Emit(trace.M{"e": "Panic", "where": where, "fn": fn, "msg": msg})
}

func (s *sim) nPanics() int {
	s.mu.Lock()
	defer s.mu.Unlock()
	return s.panics
}

// ---------------------------------------------------------------- world observation
func (s *sim) sink(tw *trace.Writer) func(trace.M) {
	return func(ev trace.M) {
		if ev["e"] == "Api" && ev["kind"] == "NodeClaim" && ev["verb"] == "create" && ev["err"] == "-" {
			if post, ok := ev["post"].(trace.M); ok {
				s.mu.Lock()
				s.names = append(s.names, post["name"].(string))
				ev["idx"] = len(s.names)
				s.mu.Unlock()
			}
		}
		if ev["e"] == "Api" || ev["e"] == "Env" {
			s.mu.Lock()
			s.writes++
			s.mu.Unlock()
		}
		tw.Emit(ev)
	}
}

func (s *sim) claims() []*v1.NodeClaim {
	l := &v1.NodeClaimList{}
	s.w.List(l)
	out := []*v1.NodeClaim{}
	for i := range l.Items {
		if l.Items[i].Labels[v1.NodePoolLabelKey] == ctlPool {
			out = append(out, &l.Items[i])
		}
	}
	return out
}

func (s *sim) mem(step string) {
	live, deleting := 0, 0
	for _, c := range s.claims() {
		if c.DeletionTimestamp.IsZero() {
			live++
		} else {
			deleting++
		}
	}
	np := &v1.NodePool{ObjectMeta: metav1.ObjectMeta{Name: ctlPool}}
	s.w.Get(np)
	s.w.Emit(trace.M{"e": "Mem", "after": step, "mem": Snapshot(s.cluster.NodePoolState, ctlPool, s.idx),
		"live": live, "deleting": deleting, "replicas": int(lo.FromPtr(np.Spec.Replicas)), "queued": len(s.queue.GetCommands()),
		"held": s.nWaiting(func(world.Call) bool { return true }),
		// grants whose NodeClaim create is still to come: workers held before Get NodePool / Create NodeClaim, commands
		// held before the taint patch
		"heldGrants": s.nWaiting(func(c world.Call) bool {
			return (c.Verb == "get" && c.Kind == "NodePool") || (c.Verb == "create" && c.Kind == "NodeClaim") ||
				(c.Verb == "patch" && c.Kind == "Node")
		})})
}

// ---------------------------------------------------------------- environment steps
func (s *sim) ensureFinalizers() {
	for _, c := range s.claims() {
		if !lo.Contains(c.Finalizers, v1.TerminationFinalizer) && c.DeletionTimestamp.IsZero() {
			nc := &v1.NodeClaim{ObjectMeta: metav1.ObjectMeta{Name: c.Name}}
			s.w.EnvMutate(nc, "LifecycleFinalizer", func() { nc.Finalizers = append(nc.Finalizers, v1.TerminationFinalizer) })
		}
	}
}

func (s *sim) launch(name string) bool { return s.launchOpt(name, true) }

// launchOpt: nodeFirst = the Node's informer event is delivered before the NodeClaim's (the usual order here); with
// nodeFirst false the Node event is left to the settle phase, so the NodeClaim delivery is the first to create the
// state node (cluster.UpdateNodeClaim then reads the clock between Cleanup and UpdateNodeClaim on the NodePoolState).
func (s *sim) launchOpt(name string, nodeFirst bool) bool {
	nc := &v1.NodeClaim{ObjectMeta: metav1.ObjectMeta{Name: name}}
	if !s.w.Get(nc) || nc.Status.ProviderID != "" || !nc.DeletionTimestamp.IsZero() {
		return false
	}
	pid := "verif://" + name
	capa := corev1.ResourceList{corev1.ResourceCPU: resource.MustParse("2"), corev1.ResourceMemory: resource.MustParse("4Gi"),
		corev1.ResourcePods: resource.MustParse("110")}
	s.w.EnvMutate(nc, "Launch", func() {
		nc.Status.ProviderID = pid
		nc.Status.NodeName = nodeNameFor(name)
		nc.Status.Capacity, nc.Status.Allocatable = capa, capa
		nc.Labels[corev1.LabelInstanceTypeStable] = "small"
		nc.Labels[corev1.LabelTopologyZone] = "zone-a"
		nc.Labels[v1.CapacityTypeLabelKey] = "on-demand"
		for _, t := range []string{v1.ConditionTypeLaunched, v1.ConditionTypeRegistered, v1.ConditionTypeInitialized} {
			nc.StatusConditions().SetTrue(t)
		}
	})
	n := world.NodeFor(nc, nodeNameFor(name), false)
	n.Labels = lo.Assign(n.Labels, map[string]string{v1.NodePoolLabelKey: ctlPool, corev1.LabelInstanceTypeStable: "small",
		corev1.LabelTopologyZone: "zone-a", v1.CapacityTypeLabelKey: "on-demand", v1.NodeRegisteredLabelKey: "true",
		v1.NodeInitializedLabelKey: "true"})
	world.SetNodeReady(n, true, s.w.Clock.Now())
	s.w.EnvCreate(n)
	if nodeFirst {
		s.deliverNode(n.Name)
	}
	return true
}

func (s *sim) deliverNode(name string) {
	_, _ = s.nodeInf.Reconcile(s.ctx, reconcile.Request{NamespacedName: types.NamespacedName{Name: name}})
}

func (s *sim) deliver(name string) {
	s.w.Emit(trace.M{"e": "Begin", "controller": "state.nodeclaim", "object": name})
	_, err := s.ncInf.Reconcile(s.ctx, reconcile.Request{NamespacedName: types.NamespacedName{Name: name}})
	s.w.Emit(trace.M{"e": "End", "controller": "state.nodeclaim", "err": errStr(err), "panic": false})
}

// deliverWithWindow delivers the NodeClaim's provider-id change and uses the clock read that cluster.UpdateNodeClaim
// performs after NodePoolState.Cleanup and before NodePoolState.UpdateNodeClaim (MarkUnconsolidated -> clock.Now())
// as a scheduling point: at that instant a static provisioning reconcile is started and runs (count, reserve) until
// it is held at its first API call; then the informer goes on.
func (s *sim) deliverWithWindow(name string) {
	fired := false
	s.w.Clock.SetOnNow(func() {
		if fired || !s.procDone("prov") {
			return
		}
		snap := Snapshot(s.cluster.NodePoolState, ctlPool, s.idx)
		tracked := append(append(append([]int{}, snap["act"].([]int)...), snap["del"].([]int)...), snap["pend"].([]int)...)
		if lo.Contains(tracked, s.idx(name)) {
			return // Cleanup has not run (yet): not the window
		}
		fired = true
		s.w.Clock.SetOnNow(nil)
		s.w.Emit(trace.M{"e": "Window", "in": "cluster.UpdateNodeClaim", "claim": name})
		res0 := s.snapRes()
		np := s.pool()
		s.start("prov", func() error { _, err := s.prov.Reconcile(s.ctx, np); return err })
		s.waitFor(func() bool {
			if s.procDone("prov") {
				return true
			}
			n := s.nWaiting(isProvLike(actorProv))
			return n > 0 && n >= s.snapRes()-res0
		}, 1500*time.Millisecond)
		s.mem("Window")
	})
	s.deliver(name)
	s.w.Clock.SetOnNow(nil)
	if !fired {
		s.w.Emit(trace.M{"e": "Skip", "a": "I_Deliver", "why": "no-window"})
	}
}

func errStr(err error) string {
	if err == nil {
		return "-"
	}
	return "error"
}

func (s *sim) pool() *v1.NodePool {
	np := &v1.NodePool{ObjectMeta: metav1.ObjectMeta{Name: ctlPool}}
	if !s.w.Get(np) {
		panic("static NodePool vanished")
	}
	return np
}

func (s *sim) skip(st Step, why string) {
	s.w.Emit(trace.M{"e": "Skip", "a": st.A, "why": why})
}

// ---------------------------------------------------------------- model actions -> real steps
func isProvLike(actor string) func(world.Call) bool {
	return func(c world.Call) bool { return c.Actor == actor }
}

func workerActor(st Step) string {
	if len(st.W) > 0 && fmt.Sprint(st.W[0]) == "x" {
		return actorDis
	}
	return actorProv
}

func (s *sim) step(st Step) error {
	w := s.w
	const short, long = 30 * time.Millisecond, 1500 * time.Millisecond
	switch st.A {
	// ---- static provisioning
	case "P_Count":
		if !s.procDone("prov") {
			s.skip(st, "reconcile-in-flight")
			return nil
		}
		res0 := s.snapRes()
		np := s.pool()
		s.start("prov", func() error { _, err := s.prov.Reconcile(s.ctx, np); return err })
		s.waitFor(func() bool {
			if s.procDone("prov") {
				return true
			}
			n := s.nWaiting(isProvLike(actorProv))
			return n > 0 && n >= s.snapRes()-res0
		}, long)
	case "P_Reserve", "W_Seed", "W_Release", "D_Mark", "X_Count", "X_Reserve", "X_Pend", "X_MarkDel", "X_Enq", "I_Update":
		// in-memory steps between two API calls: already executed by the goroutine that was released
	case "W_Get":
		actor := workerActor(st)
		pred := func(c world.Call) bool { return c.Actor == actor && c.Verb == "get" && c.Kind == "NodePool" }
		creates := func(c world.Call) bool { return c.Actor == actor && c.Verb == "create" && c.Kind == "NodeClaim" }
		before := s.nWaiting(creates)
		if !s.release(pred) {
			s.skip(st, "no-held-call")
			return nil
		}
		s.waitFor(func() bool { return s.nWaiting(creates) > before || s.nPanics() > 0 }, long)
	case "W_Create":
		actor := workerActor(st)
		pred := func(c world.Call) bool { return c.Actor == actor && c.Verb == "create" && c.Kind == "NodeClaim" }
		if s.nWaiting(pred) == 0 {
			s.skip(st, "no-held-call")
			return nil
		}
		fail := st.Ok != nil && !*st.Ok
		if fail {
			w.AddFault(world.Fault{Actor: actor, Verb: "create", Kind: "NodeClaim", Nth: 1, Err: "Server"})
		}
		res0, pan0, wr0 := s.snapRes(), s.nPanics(), s.nWrites()
		proc := lo.Ternary(actor == actorDis, "dis", "prov")
		s.release(pred)
		// the worker's tail: (seed,) ReleaseNodeCount - visible as the counter going down, a panic, or the reconcile ending
		s.waitFor(func() bool {
			return s.nWrites() > wr0 && (s.snapRes() < res0 || s.nPanics() > pan0 || s.procDone(proc))
		}, short)
		w.ClearFaults()
		s.goroutinesSettled()
		s.ensureFinalizers()
		if actor == actorDis {
			// StartCommand goes on in memory (MarkForDeletion, enqueue) and the round ends unless other commands are held
			s.waitFor(func() bool { return s.procDone("dis") || s.nWaiting(isProvLike(actorDis)) > 0 }, short)
		}
	// ---- static deprovisioning
	case "D_Count":
		if !s.procDone("dep") {
			s.skip(st, "reconcile-in-flight")
			return nil
		}
		np := s.pool()
		s.start("dep", func() error { _, err := s.dep.Reconcile(s.ctx, np); return err })
		s.waitFor(func() bool { return s.procDone("dep") || s.nWaiting(isProvLike(actorDep)) > 0 }, long)
	case "D_List":
		pred := func(c world.Call) bool { return c.Actor == actorDep && c.Verb == "list" }
		if !s.release(pred) {
			s.skip(st, "no-held-call")
			return nil
		}
		s.waitFor(func() bool { return s.procDone("dep") || s.nWaiting(isProvLike(actorDep)) > 0 }, long)
		// all delete workers arrive together
		time.Sleep(2 * time.Millisecond)
	case "D_Delete":
		name, ok := s.name(st.N)
		pred := func(c world.Call) bool { return c.Actor == actorDep && c.Verb == "delete" && c.Name == name }
		if !ok || s.nWaiting(pred) == 0 {
			// the real controller chose another candidate than the model: release any held delete
			pred = func(c world.Call) bool { return c.Actor == actorDep && c.Verb == "delete" }
			if s.nWaiting(pred) == 0 {
				s.skip(st, "no-held-call")
				return nil
			}
		}
		wr0 := s.nWrites()
		s.release(pred)
		s.waitFor(func() bool { return s.nWrites() > wr0 }, long)
		pause(func() bool { return s.procDone("dep") }, 3*time.Millisecond)
	// ---- disruption round (StaticDrift) and queue
	case "X_Begin":
		if !s.procDone("dis") {
			s.skip(st, "reconcile-in-flight")
			return nil
		}
		s.disRes0 = s.snapRes()
		s.start("dis", func() error { _, err := s.dis.Reconcile(s.ctx); return err })
		s.waitFor(func() bool { return s.procDone("dis") || s.nWaiting(isProvLike(actorDis)) > 0 }, long)
		time.Sleep(2 * time.Millisecond)
	case "X_Taint":
		anyTaint := func(c world.Call) bool { return c.Actor == actorDis && c.Verb == "patch" && c.Kind == "Node" }
		pred := anyTaint
		if name, ok := s.name(st.C); ok {
			nn := nodeNameFor(name)
			byName := func(c world.Call) bool { return anyTaint(c) && c.Name == nn }
			if s.nWaiting(byName) > 0 {
				pred = byName
			}
		}
		if s.nWaiting(pred) == 0 {
			s.skip(st, "no-held-call")
			return nil
		}
		fail := st.Ok != nil && !*st.Ok
		if fail {
			// the patch is retried with retry.DefaultBackoff (real sleeps, ~0.3 s): every attempt fails, retries pass the gate
			s.mu.Lock()
			for _, wt := range s.waiters {
				if pred(wt.call) {
					s.auto[callKey(wt.call)] = true
					w.AddFault(world.Fault{Actor: actorDis, Verb: "patch", Kind: "Node", Name: wt.call.Name, Nth: 0, Err: "Server"})
					break
				}
			}
			s.mu.Unlock()
		}
		s.release(pred)
		others := func(c world.Call) bool { return c.Actor == actorDis && !(c.Verb == "patch" && c.Kind == "Node") }
		n0 := s.nWaiting(others)
		s.waitFor(func() bool { return s.procDone("dis") || s.nWaiting(others) > n0 }, long)
		if fail {
			w.ClearFaults()
			s.mu.Lock()
			s.auto = map[string]bool{}
			s.mu.Unlock()
		}
	case "Q_Delete", "Q_Fail":
		name, ok := s.name(st.C)
		nc := &v1.NodeClaim{ObjectMeta: metav1.ObjectMeta{Name: name}}
		if !ok {
			s.skip(st, "no-such-claim")
			return nil
		}
		if !w.Get(nc) {
			// the candidate is gone from the API; the queue event still carries the object with its provider id
			nc.Status.ProviderID = "verif://" + name
		}
		if st.Timeout {
			w.Clock.Step(61 * time.Minute)
		}
		w.Emit(trace.M{"e": "Begin", "controller": "disruption.queue", "object": name})
		_, err := s.queue.Reconcile(s.ctx, nc)
		w.Emit(trace.M{"e": "End", "controller": "disruption.queue", "err": errStr(err), "panic": false})
	// ---- informer / GC
	case "I_Deliver", "Resync":
		if st.A == "Resync" {
			return nil // the periodic requeue itself; its delivery is the I_Deliver that follows
		}
		name, ok := s.name(st.N)
		if !ok {
			s.skip(st, "no-such-claim")
			return nil
		}
		if st.What == "relaunch-window" {
			s.deliverWithWindow(name)
		} else {
			s.deliver(name)
		}
	case "GC":
		name, ok := s.name(st.N)
		if !ok {
			s.skip(st, "no-such-claim")
			return nil
		}
		_, _ = s.gc.Reconcile(s.ctx, reconcile.Request{NamespacedName: types.NamespacedName{Name: name}})
	// ---- environment
	case "Launch":
		if name, ok := s.name(st.N); !ok || !s.launchOpt(name, st.What != "claim-event-first") {
			s.skip(st, "not-launchable")
		}
	case "Delete":
		name, ok := s.name(st.N)
		nc := &v1.NodeClaim{ObjectMeta: metav1.ObjectMeta{Name: name}}
		if !ok || !w.Get(nc) {
			s.skip(st, "no-such-claim")
			return nil
		}
		_ = w.Client.Delete(world.WithActor(context.Background(), "env"), nc)
	case "Finalize":
		name, ok := s.name(st.N)
		nc := &v1.NodeClaim{ObjectMeta: metav1.ObjectMeta{Name: name}}
		if !ok || !w.Get(nc) || nc.DeletionTimestamp.IsZero() {
			s.skip(st, "not-deleting")
			return nil
		}
		s.finalize(name)
	case "Drift":
		name, ok := s.name(st.N)
		nc := &v1.NodeClaim{ObjectMeta: metav1.ObjectMeta{Name: name}}
		if !ok || !w.EnvMutate(nc, "Drift", func() { nc.StatusConditions().SetTrue(v1.ConditionTypeDrifted) }) {
			s.skip(st, "no-such-claim")
		}
	case "Scale":
		s.scale(st.R)
	default:
		return fmt.Errorf("unknown step %q", st.A)
	}
	return nil
}

func (s *sim) nWrites() int {
	s.mu.Lock()
	defer s.mu.Unlock()
	return s.writes
}

func (s *sim) scale(r int) {
	np := &v1.NodePool{ObjectMeta: metav1.ObjectMeta{Name: ctlPool}}
	s.w.EnvMutate(np, "Scale", func() { np.Spec.Replicas = lo.ToPtr(int64(r)) })
}

func (s *sim) finalize(name string) {
	s.w.EnvRemove(&v1.NodeClaim{ObjectMeta: metav1.ObjectMeta{Name: name}}, "Finalize")
	if s.w.EnvRemove(&corev1.Node{ObjectMeta: metav1.ObjectMeta{Name: nodeNameFor(name)}}, "NodeGone") {
		s.deliverNode(nodeNameFor(name))
	}
}

// ---------------------------------------------------------------- settle: bounded progress on the real code
// drain lets every in-flight reconcile finish (held calls are released without faults).
func (s *sim) drain() {
	s.mu.Lock()
	s.gating = false
	s.mu.Unlock()
	for i := 0; i < 200; i++ {
		for s.release(func(world.Call) bool { return true }) {
		}
		if s.procDone("prov") && s.procDone("dep") && s.procDone("dis") {
			s.goroutinesSettled()
			return
		}
		time.Sleep(200 * time.Microsecond)
		if i > 20 {
			time.Sleep(5 * time.Millisecond)
		}
	}
}

// settle runs every controller and the environment's progress steps (launch, finalization, informer deliveries,
// queue) sequentially until a whole round writes nothing.
func (s *sim) settle(tag string) {
	s.drain()
	s.ensureFinalizers()
	converged := false
	for round := 0; round < 12; round++ {
		w0 := s.nWrites()
		s.mu.Lock()
		all := append([]string{}, s.names...)
		s.mu.Unlock()
		for _, c := range s.claims() {
			if c.DeletionTimestamp.IsZero() {
				s.launch(c.Name)
			} else {
				s.finalize(c.Name)
			}
		}
		for _, n := range all {
			s.deliverNode(nodeNameFor(n))
			s.deliver(n)
			_, _ = s.gc.Reconcile(s.ctx, reconcile.Request{NamespacedName: types.NamespacedName{Name: n}})
		}
		for _, cmd := range s.queue.GetCommands() {
			if len(cmd.Candidates) > 0 && cmd.Candidates[0].NodeClaim != nil {
				_, _ = s.queue.Reconcile(s.ctx, cmd.Candidates[0].NodeClaim.DeepCopy())
			}
		}
		for _, p := range []string{"prov", "dep", "dis"} {
			np := s.pool()
			switch p {
			case "prov":
				s.start(p, func() error { _, err := s.prov.Reconcile(s.ctx, np); return err })
			case "dep":
				s.start(p, func() error { _, err := s.dep.Reconcile(s.ctx, np); return err })
			case "dis":
				s.disRes0 = s.snapRes()
				s.start(p, func() error { _, err := s.dis.Reconcile(s.ctx); return err })
			}
			s.mu.Lock()
			st := s.procs[p]
			s.mu.Unlock()
			<-st.done
			s.goroutinesSettled()
			s.ensureFinalizers()
		}
		if s.nWrites() == w0 && round > 0 {
			converged = true
			break
		}
	}
	live, deleting := 0, 0
	for _, c := range s.claims() {
		if c.DeletionTimestamp.IsZero() {
			live++
		} else {
			deleting++
		}
	}
	np := s.pool()
	s.w.Emit(trace.M{"e": "Quiesce", "tag": tag, "converged": converged, "live": live, "deleting": deleting, "replicas": int(lo.FromPtr(np.Spec.Replicas)),
		"limit": s.cfg.Limit, "queued": len(s.queue.GetCommands()), "mem": Snapshot(s.cluster.NodePoolState, ctlPool, s.idx)})
}

// ---------------------------------------------------------------- one behaviour
func runCtl(b CtlBehaviour, tw *trace.Writer) error {
	w := world.New()
	w.Prov.Types = world.DefaultCatalog()
	s := &sim{w: w, ctx: world.Ctx(), cfg: b.Cfg, procs: map[string]*procState{}, auto: map[string]bool{}}
	curSim = s
	tw.Begin(trace.M{"level": "ctrl", "pool": ctlPool, "limit": b.Cfg.Limit, "replicas0": b.Cfg.Replicas0, "pre": b.Cfg.Pre, "budget": max(1, b.Cfg.Budget), "tag": b.Tag})
	w.Sink = s.sink(tw)
	w.EnvCreate(world.NodeClass())
	np := world.NodePool(ctlPool)
	np.Spec.Replicas = lo.ToPtr(int64(b.Cfg.Replicas0))
	np.Spec.Limits = v1.Limits{resources.Node: *resource.NewQuantity(int64(b.Cfg.Limit), resource.DecimalSI)}
	np.Spec.Disruption.Budgets = []v1.Budget{{Nodes: fmt.Sprint(max(1, b.Cfg.Budget))}} // Budget of StaticPool.tla
	w.EnvCreate(np)
	w.EnvMutate(np, "PoolReady", func() {
		np.StatusConditions().SetTrue(v1.ConditionTypeValidationSucceeded)
		np.StatusConditions().SetTrue(v1.ConditionTypeNodeClassReady)
	})
	s.cluster = state.NewCluster(w.Clock, w.Client, w.Prov)
	cc := cost.NewClusterCost(s.ctx, w.Prov, w.Client)
	dev := deviceallocation.NewController(w.Client)
	vpc := virtualpods.NewVirtualPodCache(w.Client)
	prov := provisioning.NewProvisioner(w.Client, w.Rec, w.Prov, s.cluster, w.Clock, dev, vpc)
	s.prov = staticprov.NewController(w.Client, s.cluster, w.Rec, w.Prov, prov, w.Clock, dev, vpc)
	s.dep = staticdeprov.NewController(w.Client, s.cluster, w.Prov, w.Clock, w.Rec)
	s.queue = disruption.NewQueue(w.Client, w.Rec, s.cluster, w.Clock, prov)
	s.dis = disruption.NewController(w.Clock, w.Client, prov, w.Prov, w.Rec, s.cluster, s.queue, cc,
		disruption.WithMethods(disruption.NewStaticDrift(s.cluster, prov, w.Prov)))
	s.ncInf = informer.NewNodeClaimController(w.Client, w.Prov, s.cluster, cc)
	s.nodeInf = informer.NewNodeController(w.Client, s.cluster)
	s.gc = nodeclaimgc.NewController(w.Client, s.cluster)
	w.Gate = s.gate
	// the initial claims: created, launched and delivered (steady state of a running controller)
	for i := 1; i <= b.Cfg.Pre; i++ {
		nc := world.NodeClaim(fmt.Sprintf("%s-pre%d", ctlPool, i), np)
		nc.Finalizers = []string{v1.TerminationFinalizer}
		w.EnvCreate(nc)
		s.launch(nc.Name)
		s.deliver(nc.Name)
	}
	s.cluster.SetSynced(true)
	s.mem("Init")
	s.baseG = runtime.NumGoroutine()
	s.gating = true
	for _, st := range b.Steps {
		okS, wk, wi := "-", "-", 0
		if st.Ok != nil {
			okS = fmt.Sprint(*st.Ok)
		}
		if len(st.W) == 2 {
			wk = fmt.Sprint(st.W[0])
			if f, isF := st.W[1].(float64); isF {
				wi = int(f)
			}
		}
		w.Emit(trace.M{"e": "Step", "a": st.A, "n": st.N, "c": st.C, "r": st.R, "ok": okS, "what": lo.Ternary(st.What == "", "-", st.What),
			"timeout": st.Timeout, "wk": wk, "wi": wi})
		if err := s.step(st); err != nil {
			return err
		}
		s.mem(st.A)
	}
	s.settle("end")
	if b.Cfg.Probe {
		s.scale(b.Cfg.Limit)
		s.settle("probe")
	}
	pause(func() bool { return runtime.NumGoroutine() <= s.baseG }, 300*time.Millisecond)
	w.Emit(trace.M{"e": "EndTrace", "timeouts": s.timeouts})
	w.Gate = nil
	return nil
}

var panicHookOnce sync.Once
var curSim *sim

// Ctrl replays behaviours on the real controllers.
func Ctrl(args []string) error {
	fs := flag.NewFlagSet("staticpool-ctrl", flag.ContinueOnError)
	in := fs.String("in", "", "behaviours JSON")
	out := fs.String("out", "traces", "output directory")
	shards := fs.Int("shards", 8, "trace shards")
	if err := fs.Parse(args); err != nil {
		return err
	}
	raw, err := os.ReadFile(*in)
	if err != nil {
		return err
	}
	var behs []CtlBehaviour
	if err := json.Unmarshal(raw, &behs); err != nil {
		return err
	}
	tw, err := trace.NewWriter(*out, "staticpool-ctrl", *shards)
	if err != nil {
		return err
	}
	// client-go's ParallelizeUntil workers run under utilruntime.HandleCrash, which re-panics (and so kills the
	// process) unless ReallyCrash is off; the harness turns it off and records the panic instead.
	utilruntime.ReallyCrash = false
	for i, b := range behs {
		if err := runOneCtl(b, tw); err != nil {
			return fmt.Errorf("behaviour %d (%s): %w", i, b.Tag, err)
		}
	}
	paths := tw.Close()
	sum, _ := json.Marshal(trace.M{"traces": tw.N, "lines": tw.Lines, "files": paths})
	fmt.Println(string(sum))
	return nil
}

func runOneCtl(b CtlBehaviour, tw *trace.Writer) error {
	panicHookOnce.Do(func() {
		utilruntime.PanicHandlers = append(utilruntime.PanicHandlers, func(_ context.Context, r interface{}) {
			if curSim != nil {
				curSim.recordPanic(r, "worker")
			}
		})
	})
	defer func() { curSim = nil }()
	return runCtl(b, tw)
}

var _ = client.IgnoreNotFound
