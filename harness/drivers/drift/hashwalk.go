// Package drift binds Drift.tla (C15) to the real NodePool hash, the nodepool hash controller, the
// provisioner / NodeClaim template, the nodeclaim lifecycle controller and the nodeclaim disruption
// (drift) controller.
//
// hashwalk.go - part (a): the edit alphabet over the NodePool spec is derived by REFLECTION from
// v1.NodePoolSpec (field path x edit kind).  Every edit is applied to a real NodePool and
// (*NodePool).Hash() is recorded before and after as a `Call` event together with the field path, the
// class of the path (documented non-drifting / template / outside) and whether the edit changed the
// object as the API sees it (its JSON).  The driver only records: which edits must / must not change
// the hash is decided by Drift_Trace.tla from the class, never from the `hash:"ignore"` tags (a
// missing or extra tag is exactly what the property is about; a new field needs no table update).
package drift

import (
	"bytes"
	"encoding/json"
	"flag"
	"fmt"
	"math/rand"
	"os"
	"reflect"
	"sort"
	"strconv"
	"strings"

	v1 "sigs.k8s.io/karpenter/pkg/apis/v1"

	"verif/harness/reg"
	"verif/harness/trace"
	"verif/harness/world"
)

func init() {
	reg.Register("drift-hash", HashWalk)
	reg.Register("drift-world", RunWorld)
}

// DocumentedNonDrifting are the field paths (JSON names under .spec) the property statement and the
// drift documentation list as not causing drift: budgets, consolidation settings (everything under
// .spec.disruption), limits, weight, and the template's requirements (handled by requirement drift).
var DocumentedNonDrifting = []string{"disruption", "limits", "weight", "template.spec.requirements"}

func classOf(path string) string {
	for _, d := range DocumentedNonDrifting {
		if path == d || strings.HasPrefix(path, d+".") || strings.HasPrefix(path, d+"[") {
			return "documented"
		}
	}
	if path == "template" || strings.HasPrefix(path, "template.") {
		return "template"
	}
	return "outside"
}

var unmarshalerT = reflect.TypeOf((*json.Unmarshaler)(nil)).Elem()

// isLeafJSON: a type with its own JSON (un)marshalling is one API-level scalar (NillableDuration,
// metav1.Duration, metav1.Time, resource.Quantity ...): its Go internals are not API fields.
func isLeafJSON(t reflect.Type) bool {
	return t.Kind() != reflect.Pointer && reflect.PointerTo(t).Implements(unmarshalerT)
}

// literals tried for JSON-scalar leaf types; the ones that parse and re-marshal distinctly are used.
var leafLiterals = []string{`"10m"`, `"20m"`, `"2026-01-02T03:04:05Z"`, `"2027-02-03T04:05:06Z"`, `"1"`, `"2"`, `1`, `2`}
var zeroLiterals = []string{`"0s"`, `"0"`, `0`, `"Never"`}

func leafValues(t reflect.Type, lits []string) []reflect.Value {
	var out []reflect.Value
	seen := map[string]bool{}
	for _, l := range lits {
		p := reflect.New(t)
		if err := json.Unmarshal([]byte(l), p.Interface()); err != nil {
			continue
		}
		b, err := json.Marshal(p.Interface())
		if err != nil || seen[string(b)] {
			continue
		}
		seen[string(b)] = true
		out = append(out, p.Elem())
	}
	return out
}

// fill sets v to the variant-th non-zero value of its type (recursively, every field populated).
func fill(v reflect.Value, variant int) {
	t := v.Type()
	if isLeafJSON(t) {
		if vals := leafValues(t, leafLiterals); len(vals) > 0 {
			v.Set(vals[(variant-1)%len(vals)])
		}
		return
	}
	switch t.Kind() {
	case reflect.String:
		v.SetString("v" + strconv.Itoa(variant))
	case reflect.Bool:
		v.SetBool(true)
	case reflect.Int, reflect.Int8, reflect.Int16, reflect.Int32, reflect.Int64:
		v.SetInt(int64(variant))
	case reflect.Uint, reflect.Uint8, reflect.Uint16, reflect.Uint32, reflect.Uint64:
		v.SetUint(uint64(variant))
	case reflect.Float32, reflect.Float64:
		v.SetFloat(float64(variant))
	case reflect.Pointer:
		p := reflect.New(t.Elem())
		fill(p.Elem(), variant)
		v.Set(p)
	case reflect.Struct:
		for i := 0; i < t.NumField(); i++ {
			if t.Field(i).IsExported() && jsonName(t.Field(i)) != "-" {
				fill(v.Field(i), variant)
			}
		}
	case reflect.Slice:
		s := reflect.MakeSlice(t, 3, 3)
		for i := 0; i < 3; i++ {
			fill(s.Index(i), variant+10*i)
		}
		v.Set(s)
	case reflect.Map:
		m := reflect.MakeMap(t)
		for i := 0; i < 3; i++ {
			k := reflect.New(t.Key()).Elem()
			fill(k, variant+10*i)
			e := reflect.New(t.Elem()).Elem()
			fill(e, variant+10*i)
			m.SetMapIndex(k, e)
		}
		v.Set(m)
	}
}

func jsonName(f reflect.StructField) string {
	tag := f.Tag.Get("json")
	name, _, _ := strings.Cut(tag, ",")
	if name == "" {
		if f.Anonymous && tag == "" {
			return "" // inlined
		}
		return f.Name
	}
	return name
}

// edit is one point of the edit alphabet: a mutation of the node at `path`.
type edit struct {
	path   string
	kind   string // set | setzero | change | clear | append | remove | reorder
	detail string
	tagged bool // a hash:"ignore" tag lies on the path (informational only)
	prep   func(root reflect.Value) // optional: reshapes the base object first (Hash "before" is taken after prep)
	apply  func(root reflect.Value)
}

type step func(reflect.Value) reflect.Value

func chain(steps []step) func(reflect.Value) reflect.Value {
	return func(v reflect.Value) reflect.Value {
		for _, s := range steps {
			v = s(v)
			if !v.IsValid() {
				return v
			}
		}
		return v
	}
}

func permutations(n int) [][]int {
	var out [][]int
	var rec func(cur []int, used []bool)
	rec = func(cur []int, used []bool) {
		if len(cur) == n {
			out = append(out, append([]int{}, cur...))
			return
		}
		for i := 0; i < n; i++ {
			if !used[i] {
				used[i] = true
				rec(append(cur, i), used)
				used[i] = false
			}
		}
	}
	rec(nil, make([]bool, n))
	return out
}

// walk enumerates the edits below a node of type t reachable from the root through `steps`.
// rich = the base has every node populated (change/clear/remove/reorder/append edits);
// otherwise the base is sparse (set/setzero/append edits where the node is currently zero).
func walk(t reflect.Type, path string, steps []step, tagged bool, rich bool, out *[]edit) {
	loc := chain(steps)
	add := func(kind, detail string, f func(v reflect.Value)) {
		*out = append(*out, edit{path: path, kind: kind, detail: detail, tagged: tagged, apply: func(root reflect.Value) {
			if v := loc(root); v.IsValid() && v.CanSet() {
				f(v)
			}
		}})
	}
	zero := reflect.Zero(t)
	leaf := isLeafJSON(t) || t.Kind() == reflect.String || t.Kind() == reflect.Bool ||
		(t.Kind() >= reflect.Int && t.Kind() <= reflect.Float64)
	if leaf {
		if rich {
			if t.Kind() != reflect.Bool {
				add("change", "v1->v2", func(v reflect.Value) { fill(v, 2) })
			}
			add("clear", "v1->zero", func(v reflect.Value) { v.Set(zero) })
			if isLeafJSON(t) {
				for i, z := range leafValues(t, zeroLiterals) {
					z := z
					add("change", "v1->zero-literal-"+strconv.Itoa(i), func(v reflect.Value) { v.Set(z) })
				}
			}
		} else {
			add("set", "zero->v1", func(v reflect.Value) {
				if v.IsZero() {
					fill(v, 1)
				}
			})
			if isLeafJSON(t) {
				for i, z := range leafValues(t, zeroLiterals) {
					z := z
					add("setzero", "zero->zero-literal-"+strconv.Itoa(i), func(v reflect.Value) {
						if v.IsZero() {
							v.Set(z)
						}
					})
				}
			}
		}
		return
	}
	switch t.Kind() {
	case reflect.Pointer:
		if rich {
			add("clear", "ptr->nil", func(v reflect.Value) { v.Set(zero) })
			walk(t.Elem(), path, append(append([]step{}, steps...), func(v reflect.Value) reflect.Value {
				if v.IsNil() {
					return reflect.Value{}
				}
				return v.Elem()
			}), tagged, rich, out)
		} else {
			add("set", "nil->&v1", func(v reflect.Value) {
				if v.IsNil() {
					fill(v, 1)
				}
			})
			add("setzero", "nil->&zero", func(v reflect.Value) {
				if v.IsNil() {
					v.Set(reflect.New(t.Elem()))
				}
			})
			if isLeafJSON(t.Elem()) {
				for i, z := range leafValues(t.Elem(), zeroLiterals) {
					z := z
					add("setzero", "nil->&zero-literal-"+strconv.Itoa(i), func(v reflect.Value) {
						if v.IsNil() {
							p := reflect.New(t.Elem())
							p.Elem().Set(z)
							v.Set(p)
						}
					})
				}
			}
			// below an already-set pointer of the sparse base
			walk(t.Elem(), path, append(append([]step{}, steps...), func(v reflect.Value) reflect.Value {
				if v.IsNil() {
					return reflect.Value{}
				}
				return v.Elem()
			}), tagged, rich, out)
		}
	case reflect.Struct:
		for i := 0; i < t.NumField(); i++ {
			f := t.Field(i)
			if !f.IsExported() {
				continue
			}
			name := jsonName(f)
			if name == "-" {
				continue
			}
			p := path
			if name != "" {
				if p != "" {
					p += "."
				}
				p += name
			}
			i := i
			walk(f.Type, p, append(append([]step{}, steps...), func(v reflect.Value) reflect.Value { return v.Field(i) }),
				tagged || f.Tag.Get("hash") == "ignore", rich, out)
		}
	case reflect.Slice:
		if t.Elem().Kind() == reflect.Uint8 { // []byte: one scalar
			return
		}
		if rich {
			add("append", "3->4", func(v reflect.Value) {
				e := reflect.New(t.Elem()).Elem()
				fill(e, 77)
				v.Set(reflect.Append(v, e))
			})
			add("remove", "3->2", func(v reflect.Value) { v.Set(v.Slice(0, v.Len()-1)) })
			add("remove", "3->0", func(v reflect.Value) { v.Set(zero) })
			for _, perm := range permutations(3)[1:] {
				perm := perm
				add("reorder", fmt.Sprint(perm), func(v reflect.Value) {
					if v.Len() != 3 {
						return
					}
					s := reflect.MakeSlice(t, 3, 3)
					for j, k := range perm {
						s.Index(j).Set(v.Index(k))
					}
					v.Set(s)
				})
			}
			pairEdits(t, path, loc, tagged, out)
			walk(t.Elem(), path+"[0]", append(append([]step{}, steps...), func(v reflect.Value) reflect.Value {
				if v.Len() == 0 {
					return reflect.Value{}
				}
				return v.Index(0)
			}), tagged, rich, out)
		} else {
			add("append", "0->1", func(v reflect.Value) {
				if v.Len() == 0 {
					e := reflect.New(t.Elem()).Elem()
					fill(e, 1)
					v.Set(reflect.Append(reflect.MakeSlice(t, 0, 1), e))
				}
			})
			add("append", "n->n+1", func(v reflect.Value) {
				if v.Len() > 0 {
					e := reflect.New(t.Elem()).Elem()
					fill(e, 78)
					v.Set(reflect.Append(v, e))
				}
			})
		}
	case reflect.Map:
		if rich {
			add("append", "add-key", func(v reflect.Value) {
				k := reflect.New(t.Key()).Elem()
				fill(k, 77)
				e := reflect.New(t.Elem()).Elem()
				fill(e, 77)
				v.SetMapIndex(k, e)
			})
			add("setzero", "add-key-zero-value", func(v reflect.Value) {
				k := reflect.New(t.Key()).Elem()
				fill(k, 77)
				v.SetMapIndex(k, reflect.Zero(t.Elem()))
			})
			add("remove", "del-key", func(v reflect.Value) {
				ks := sortedKeys(v)
				v.SetMapIndex(ks[0], reflect.Value{})
			})
			add("remove", "del-all", func(v reflect.Value) { v.Set(zero) })
			add("change", "value-of-key", func(v reflect.Value) {
				ks := sortedKeys(v)
				e := reflect.New(t.Elem()).Elem()
				fill(e, 2)
				v.SetMapIndex(ks[0], e)
			})
			add("change", "swap-values", func(v reflect.Value) {
				ks := sortedKeys(v)
				a, b := v.MapIndex(ks[0]), v.MapIndex(ks[1])
				a2, b2 := reflect.New(t.Elem()).Elem(), reflect.New(t.Elem()).Elem()
				a2.Set(a)
				b2.Set(b)
				v.SetMapIndex(ks[0], b2)
				v.SetMapIndex(ks[1], a2)
			})
			add("reorder", "reinsert-reverse", func(v reflect.Value) {
				ks := sortedKeys(v)
				m := reflect.MakeMap(t)
				for j := len(ks) - 1; j >= 0; j-- {
					m.SetMapIndex(ks[j], v.MapIndex(ks[j]))
				}
				v.Set(m)
			})
		} else {
			add("append", "nil->1-entry", func(v reflect.Value) {
				if v.Len() == 0 {
					m := reflect.MakeMap(t)
					k := reflect.New(t.Key()).Elem()
					fill(k, 1)
					e := reflect.New(t.Elem()).Elem()
					fill(e, 1)
					m.SetMapIndex(k, e)
					v.Set(m)
				}
			})
			add("setzero", "nil->1-entry-zero-value", func(v reflect.Value) {
				if v.Len() == 0 {
					m := reflect.MakeMap(t)
					k := reflect.New(t.Key()).Elem()
					fill(k, 1)
					m.SetMapIndex(k, reflect.Zero(t.Elem()))
					v.Set(m)
				}
			})
		}
	}
}

// pairEdits: lists whose elements share PART of their identity, and exact duplicates.  For a slice of structs and
// every field f of the element: the list becomes [e1, e2, e3] with e2 = e1 except for field f (e3 unrelated); on it
// every permutation, removal of either member of the pair, a change of every field of e2, and the append of a third
// element differing from e1 only in f.  For every slice: [e1, e1, e3] (exact duplicate) under every permutation.
func pairEdits(t reflect.Type, path string, loc func(reflect.Value) reflect.Value, tagged bool, out *[]edit) {
	et := t.Elem()
	mk := func(variant int) reflect.Value {
		e := reflect.New(et).Elem()
		fill(e, variant)
		return e
	}
	setList := func(v reflect.Value, elems ...reflect.Value) {
		s := reflect.MakeSlice(t, len(elems), len(elems))
		for i, e := range elems {
			s.Index(i).Set(e)
		}
		v.Set(s)
	}
	add := func(kind, detail string, prep, f func(v reflect.Value)) {
		*out = append(*out, edit{path: path, kind: kind, detail: detail, tagged: tagged,
			prep: func(root reflect.Value) {
				if v := loc(root); v.IsValid() && v.CanSet() {
					prep(v)
				}
			},
			apply: func(root reflect.Value) {
				if v := loc(root); v.IsValid() && v.CanSet() {
					f(v)
				}
			}})
	}
	perms := func(detail string, prep func(v reflect.Value)) {
		for _, perm := range permutations(3)[1:] {
			perm := perm
			add("reorder", detail+":"+fmt.Sprint(perm), prep, func(v reflect.Value) {
				elems := make([]reflect.Value, 3)
				for j, k := range perm {
					c := reflect.New(et).Elem()
					c.Set(v.Index(k))
					elems[j] = c
				}
				setList(v, elems...)
			})
		}
	}
	dup := func(v reflect.Value) { setList(v, mk(1), mk(1), mk(21)) }
	perms("duplicate", dup)
	if et.Kind() != reflect.Struct || isLeafJSON(et) {
		return
	}
	for i := 0; i < et.NumField(); i++ {
		f := et.Field(i)
		if !f.IsExported() || jsonName(f) == "-" {
			continue
		}
		i, fname := i, jsonName(f)
		pair := func(v reflect.Value) {
			e2 := mk(1)
			fill(e2.Field(i), 2)
			setList(v, mk(1), e2, mk(21))
		}
		d := "pair-differs-in-" + fname
		perms(d, pair)
		add("remove", d+":second", pair, func(v reflect.Value) { setList(v, v.Index(0), v.Index(2)) })
		add("remove", d+":first", pair, func(v reflect.Value) { setList(v, v.Index(1), v.Index(2)) })
		add("append", d+":third-of-the-kind", pair, func(v reflect.Value) {
			e4 := mk(1)
			fill(e4.Field(i), 3)
			v.Set(reflect.Append(v, e4))
		})
		for k := 0; k < et.NumField(); k++ {
			g := et.Field(k)
			if !g.IsExported() || jsonName(g) == "-" {
				continue
			}
			k := k
			add("change", d+":second."+jsonName(g), pair, func(v reflect.Value) { fill(v.Index(1).Field(k), 3) })
		}
	}
}

func sortedKeys(m reflect.Value) []reflect.Value {
	ks := m.MapKeys()
	sort.Slice(ks, func(i, j int) bool { return fmt.Sprint(ks[i].Interface()) < fmt.Sprint(ks[j].Interface()) })
	return ks
}

// shuffleAll permutes every slice and re-inserts every map below v in a random order.
func shuffleAll(v reflect.Value, rng *rand.Rand) {
	t := v.Type()
	if isLeafJSON(t) {
		return
	}
	switch t.Kind() {
	case reflect.Pointer:
		if !v.IsNil() {
			shuffleAll(v.Elem(), rng)
		}
	case reflect.Struct:
		for i := 0; i < t.NumField(); i++ {
			if t.Field(i).IsExported() {
				shuffleAll(v.Field(i), rng)
			}
		}
	case reflect.Slice:
		if t.Elem().Kind() == reflect.Uint8 || v.Len() == 0 {
			return
		}
		for i := 0; i < v.Len(); i++ {
			shuffleAll(v.Index(i), rng)
		}
		perm := rng.Perm(v.Len())
		s := reflect.MakeSlice(t, v.Len(), v.Len())
		for j, k := range perm {
			s.Index(j).Set(v.Index(k))
		}
		v.Set(s)
	case reflect.Map:
		if v.Len() == 0 {
			return
		}
		ks := sortedKeys(v)
		rng.Shuffle(len(ks), func(i, j int) { ks[i], ks[j] = ks[j], ks[i] })
		m := reflect.MakeMap(t)
		for _, k := range ks {
			m.SetMapIndex(k, v.MapIndex(k))
		}
		v.Set(m)
	}
}

func specJSON(s *v1.NodePoolSpec) []byte {
	b, err := json.Marshal(s)
	if err != nil {
		panic(err)
	}
	return b
}

func hashOf(s *v1.NodePoolSpec) string {
	np := &v1.NodePool{Spec: *s}
	return np.Hash()
}

// HashWalk is the driver of part (a).
func HashWalk(args []string) error {
	fs := flag.NewFlagSet("drift-hash", flag.ContinueOnError)
	out := fs.String("out", "traces", "output directory")
	shuffles := fs.Int("shuffles", 20, "random whole-spec permutations per base")
	if err := fs.Parse(args); err != nil {
		return err
	}
	seed, _ := strconv.Atoi(os.Getenv("VERIF_SEED"))
	rng := rand.New(rand.NewSource(int64(seed) + 1))
	tw, err := trace.NewWriter(*out, "drift-hash", 1)
	if err != nil {
		return err
	}
	rich := &v1.NodePoolSpec{}
	fill(reflect.ValueOf(rich).Elem(), 1)
	sparse := world.NodePool("p").Spec.DeepCopy()
	bases := []struct {
		name string
		spec *v1.NodePoolSpec
		rich bool
	}{{"rich", rich, true}, {"sparse", sparse, false}}
	paths := map[string]bool{}
	for _, b := range bases {
		tw.Begin(trace.M{"module": "Drift", "part": "hash", "base": b.name, "version": v1.NodePoolHashVersion,
			"documented": DocumentedNonDrifting})
		var edits []edit
		walk(reflect.TypeOf(v1.NodePoolSpec{}), "", nil, false, b.rich, &edits)
		before0 := hashOf(b.spec)
		jb0 := specJSON(b.spec)
		for _, e := range edits {
			cp := b.spec.DeepCopy()
			before, jb := before0, jb0
			if e.prep != nil {
				e.prep(reflect.ValueOf(cp).Elem())
				before, jb = hashOf(cp), specJSON(cp)
				cp = cp.DeepCopy()
			}
			e.apply(reflect.ValueOf(cp).Elem())
			after := hashOf(cp)
			changed := !bytes.Equal(jb, specJSON(cp))
			if !changed && e.kind != "reorder" {
				continue // the edit does not apply to this base (node absent / already set)
			}
			paths[e.path] = true
			tw.Emit(trace.M{"e": "Call", "fn": "Hash", "base": b.name, "path": e.path, "kind": e.kind, "detail": e.detail,
				"cls": classOf(e.path), "tagged": e.tagged, "changed": changed, "before": before, "after": after})
		}
		for i := 0; i < *shuffles; i++ {
			cp := b.spec.DeepCopy()
			shuffleAll(reflect.ValueOf(cp).Elem(), rng)
			tw.Emit(trace.M{"e": "Call", "fn": "Hash", "base": b.name, "path": "*", "kind": "reorder", "detail": "shuffle-all-" + strconv.Itoa(i),
				"cls": "template", "tagged": false, "changed": !bytes.Equal(jb0, specJSON(cp)), "before": before0, "after": hashOf(cp)})
		}
	}
	files := tw.Close()
	ps := make([]string, 0, len(paths))
	for p := range paths {
		ps = append(ps, p)
	}
	sort.Strings(ps)
	sum, _ := json.Marshal(trace.M{"traces": tw.N, "lines": tw.Lines, "files": files, "paths": ps})
	fmt.Println(string(sum))
	return nil
}
