package drift

// world.go - parts (b) and (c): NodeClaims are produced from generated NodePools by the REAL
// provisioner (dynamic pools: a pending pod -> Provisioner.Schedule -> CreateNodeClaims ->
// NodeClaimTemplate.ToNodeClaim) or by the static-provisioning code path (static pools:
// NewNodeClaimTemplate(np) -> CreateNodeClaims), launched by the REAL nodeclaim lifecycle controller
// with the harness provider's explicit launch choice, and judged by the REAL nodeclaim disruption
// controller (Drifted condition).  Pool edits, annotation ageing / tampering, provider drift, catalog
// changes, restarts and the REAL nodepool hash controller interleave as the behaviour prescribes.
// The driver only records: after every step an `Obs` event carries the projection of the stored
// NodePool, NodeClaims and catalog that Drift_Trace.tla needs to re-derive every Drifted verdict.

import (
	"context"
	"crypto/sha256"
	"encoding/hex"
	"encoding/json"
	"flag"
	"fmt"
	"os"
	"sort"
	"strconv"
	"strings"
	"time"

	"github.com/samber/lo"
	corev1 "k8s.io/api/core/v1"
	"k8s.io/apimachinery/pkg/api/resource"
	metav1 "k8s.io/apimachinery/pkg/apis/meta/v1"
	"k8s.io/apimachinery/pkg/types"
	"sigs.k8s.io/controller-runtime/pkg/reconcile"

	"github.com/awslabs/operatorpkg/status"

	v1 "sigs.k8s.io/karpenter/pkg/apis/v1"
	"sigs.k8s.io/karpenter/pkg/cloudprovider"
	ncdisruption "sigs.k8s.io/karpenter/pkg/controllers/nodeclaim/disruption"
	nclifecycle "sigs.k8s.io/karpenter/pkg/controllers/nodeclaim/lifecycle"
	"sigs.k8s.io/karpenter/pkg/controllers/nodepool/hash"
	"sigs.k8s.io/karpenter/pkg/controllers/provisioning"
	pscheduling "sigs.k8s.io/karpenter/pkg/controllers/provisioning/scheduling"
	"sigs.k8s.io/karpenter/pkg/controllers/dynamicresources/deviceallocation"
	"sigs.k8s.io/karpenter/pkg/controllers/state"
	"sigs.k8s.io/karpenter/pkg/state/cost"
	"sigs.k8s.io/karpenter/pkg/controllers/state/informer"
	"sigs.k8s.io/karpenter/pkg/operator/injection"
	"sigs.k8s.io/karpenter/pkg/scheduling"
	"sigs.k8s.io/karpenter/pkg/state/nodepoolhealth"
	"sigs.k8s.io/karpenter/pkg/utils/resources"
	"sigs.k8s.io/karpenter/pkg/state/virtualpods"

	"verif/harness/trace"
	"verif/harness/world"
)

const (
	poolName   = "pool-1"
	OldVersion = "v2" // a hash version of an earlier release (the current one is v1.NodePoolHashVersion)
)

// ReqSpec is one NodeSelectorRequirementWithMinValues of the scenario; Cls is an opaque class label
// (operator combination on the key) used only in witness signatures.
type ReqSpec struct {
	Key  string   `json:"key"`
	Op   string   `json:"op"`
	Vals []string `json:"vals"`
	Min  int      `json:"min"` // minValues, <=0 = unset
	Cls  string   `json:"cls"`
}

type OffSpec struct {
	Zone    string `json:"zone"`
	CT      string `json:"ct"`
	Price   int    `json:"price"`
	Resv    string `json:"resv"`
	Unavail bool   `json:"unavail"` // temporarily unavailable (still listed by the provider)
}

type TypeSpec struct {
	Name    string    `json:"name"`
	CPU     int       `json:"cpu"`
	Arch    string    `json:"arch"`
	Offs    []OffSpec `json:"offs"`
	MultiOS bool      `json:"multiOS"` // the instance type can boot linux or windows (requirement os In [linux, windows])
}

type Scenario struct {
	Reqs    []ReqSpec         `json:"reqs"`
	TLabels map[string]string `json:"tlabels"`
	Taints  []string          `json:"taints"`
	Static  bool              `json:"static"`
	Types   []TypeSpec        `json:"types"` // empty = default catalog
}

type Step struct {
	A    string            `json:"a"`
	C    string            `json:"c,omitempty"`
	Sel  map[string]string `json:"sel,omitempty"`  // Create: node selector of the pod
	Opt  string            `json:"opt,omitempty"`  // Launch: "type/zone/ct" or "#k" (k-th permitted option, sorted by name)
	What string            `json:"what,omitempty"` // EditPool / EditClaim
	Req  *ReqSpec          `json:"req,omitempty"`
	Idx  int               `json:"idx,omitempty"`
	Key  string            `json:"key,omitempty"`
	Val  string            `json:"val,omitempty"`
	On   bool              `json:"on,omitempty"`
	T    string            `json:"t,omitempty"`
	Zone string            `json:"zone,omitempty"`
	CT   string            `json:"ct,omitempty"`
	D    int               `json:"d,omitempty"`
	N    int               `json:"n,omitempty"`
}

type Behaviour struct {
	Scn   Scenario `json:"scn"`
	Steps []Step   `json:"steps"`
	Tag   string   `json:"tag"`
}

// driftProvider wraps the harness provider: per-NodeClaim IsDrifted answers, logged as Prov events.
type driftProvider struct {
	*world.Provider
	w       *world.World
	drifted map[string]bool // by NodeClaim name
}

// Create: a well-behaved provider returns the launched NodeClaim with RESOLVED labels (cloudprovider.CloudProvider.Create):
// besides the single-valued requirements of the chosen instance type and offering (harness provider) it resolves the
// single-valued In requirements of the NodeClaim itself, as the repository's kwok provider does (addInstanceLabels).
func (p *driftProvider) Create(ctx context.Context, nc *v1.NodeClaim) (*v1.NodeClaim, error) {
	created, err := p.Provider.Create(ctx, nc)
	if err != nil || created == nil {
		return created, err
	}
	for _, r := range nc.Spec.Requirements {
		if _, ok := created.Labels[r.Key]; !ok && r.Operator == corev1.NodeSelectorOpIn && len(r.Values) == 1 {
			created.Labels[r.Key] = r.Values[0]
		}
	}
	return created, nil
}

func (p *driftProvider) IsDrifted(ctx context.Context, nc *v1.NodeClaim) (cloudprovider.DriftReason, error) {
	r := cloudprovider.DriftReason("")
	if p.drifted[nc.Name] {
		r = "ProviderDrifted"
	}
	p.w.Emit(trace.M{"e": "Prov", "actor": "nodeclaim.disruption", "call": "IsDrifted", "arg": nc.Name, "uid": string(nc.UID), "err": "-",
		"result": string(r) + "-", "post": []trace.M{}})
	return r, nil
}

type sim struct {
	w      *world.World
	ctx    context.Context
	scn    Scenario
	prov   *driftProvider
	lc     *nclifecycle.Controller
	hc     *hash.Controller
	dc     *ncdisruption.Controller
	types  []TypeSpec
	real   map[string]string // logical claim name -> stored NodeClaim name
	order  []string          // logical names in creation order
	npods  int
	nnodes int
}

func defaultTypes() []TypeSpec {
	mk := func(name string, cpu, price int) TypeSpec {
		return TypeSpec{Name: name, CPU: cpu, Arch: "amd64", Offs: []OffSpec{
			{Zone: "zone-a", CT: "on-demand", Price: price}, {Zone: "zone-b", CT: "on-demand", Price: price},
			{Zone: "zone-a", CT: "spot", Price: price * 6 / 10}, {Zone: "zone-b", CT: "spot", Price: price * 7 / 10}}}
	}
	return []TypeSpec{mk("small", 2000, 100), mk("medium", 4000, 200), mk("large", 8000, 400)}
}

func (s *sim) rebuildCatalog() {
	var out []*cloudprovider.InstanceType
	for _, t := range s.types {
		ts := world.TypeSpec{Name: t.Name, CPU: t.CPU, MemMi: t.CPU * 2, Arch: t.Arch}
		for _, o := range t.Offs {
			ofs := world.OfferingSpec{Zone: o.Zone, CapacityType: o.CT, Price: o.Price, Available: !o.Unavail}
			if o.CT == v1.CapacityTypeReserved {
				ofs.ReservationID = o.Resv
				ofs.ReservationCap = 10
			}
			ts.Offerings = append(ts.Offerings, ofs)
		}
		if len(ts.Offerings) > 0 {
			it := world.MakeType(ts)
			if t.MultiOS {
				it.Requirements[corev1.LabelOSStable] = scheduling.NewRequirement(corev1.LabelOSStable, corev1.NodeSelectorOpIn, "linux", "windows")
			}
			out = append(out, it)
		}
	}
	s.w.Prov.Types = out
}

func nsr(r ReqSpec) v1.NodeSelectorRequirementWithMinValues {
	q := v1.NodeSelectorRequirementWithMinValues{Key: r.Key, Operator: corev1.NodeSelectorOperator(r.Op), Values: append([]string{}, r.Vals...)}
	if r.Op == "Exists" || r.Op == "DoesNotExist" {
		q.Values = nil
	}
	if r.Min > 0 {
		q.MinValues = lo.ToPtr(r.Min)
	}
	return q
}

// taintOf: "k", "k:Effect" or "k=value:Effect" (several taints may share a key and differ in effect / value)
func taintOf(k string) corev1.Taint {
	t := corev1.Taint{Value: "x", Effect: corev1.TaintEffectNoSchedule}
	if name, eff, ok := strings.Cut(k, ":"); ok {
		k, t.Effect = name, corev1.TaintEffect(eff)
	}
	if name, val, ok := strings.Cut(k, "="); ok {
		k, t.Value = name, val
	}
	t.Key = "example.com/" + k
	return t
}

// aliasKeys: the deprecated spellings of well-known node labels (Kubernetes' own deprecation table); used here only to
// classify requirement keys for witness signatures.
var aliasKeys = map[string]string{
	"beta.kubernetes.io/arch": corev1.LabelArchStable, "beta.kubernetes.io/os": corev1.LabelOSStable,
	"beta.kubernetes.io/instance-type":         corev1.LabelInstanceTypeStable,
	"failure-domain.beta.kubernetes.io/zone":   corev1.LabelTopologyZone,
	"failure-domain.beta.kubernetes.io/region": corev1.LabelTopologyRegion,
}

func (s *sim) restart() {
	s.lc = nclifecycle.NewController(s.w.Clock, s.w.Client, s.prov, s.w.Rec, nodepoolhealth.NewState(), nil)
	s.hc = hash.NewController(s.w.Client, s.prov)
	s.dc = ncdisruption.NewController(s.w.Clock, s.w.Client, s.prov)
}

func (s *sim) pool() (*v1.NodePool, bool) {
	np := &v1.NodePool{ObjectMeta: metav1.ObjectMeta{Name: poolName}}
	return np, s.w.Get(np)
}

func (s *sim) claim(c string) (*v1.NodeClaim, bool) {
	rn, ok := s.real[c]
	if !ok {
		return nil, false
	}
	nc := &v1.NodeClaim{ObjectMeta: metav1.ObjectMeta{Name: rn}}
	return nc, s.w.Get(nc)
}

func skip(w *world.World, a, why string) { w.Emit(trace.M{"e": "Skip", "a": a, "why": why}) }

func errStr(err error) string {
	if err == nil {
		return "-"
	}
	return "error"
}

// guarded runs a reconcile between Begin/End events, recovering panics like controller-runtime does.
func (s *sim) guarded(controller, object string, f func() error) {
	s.w.Emit(trace.M{"e": "Begin", "controller": controller, "object": object})
	errS, panicked := "-", false
	func() {
		defer func() {
			if r := recover(); r != nil {
				panicked = true
				errS = "panic"
			}
		}()
		errS = errStr(f())
	}()
	s.w.Emit(trace.M{"e": "End", "controller": controller, "object": object, "err": errS, "panic": panicked})
}

// ---------------------------------------------------------------- creation through the real code

func req(ns, name string) reconcile.Request {
	return reconcile.Request{NamespacedName: types.NamespacedName{Namespace: ns, Name: name}}
}

// provisioner builds a fresh cluster state holding only the NodePool (and the given pod): every
// Create of the behaviour opens a NEW NodeClaim instead of re-using an in-flight one.
func (s *sim) provisioner(pod *corev1.Pod) (*provisioning.Provisioner, *state.Cluster, error) {
	pctx := injection.WithControllerName(s.ctx, "provisioner")
	cl := state.NewCluster(s.w.Clock, s.w.Client, s.prov)
	cc := cost.NewClusterCost(pctx, s.prov, s.w.Client)
	if _, err := informer.NewNodePoolController(s.w.Client, s.prov, cl, cc).Reconcile(pctx, req("", poolName)); err != nil {
		return nil, nil, err
	}
	if pod != nil {
		if _, err := informer.NewPodController(s.w.Client, cl).Reconcile(pctx, req(pod.Namespace, pod.Name)); err != nil {
			return nil, nil, err
		}
	}
	p := provisioning.NewProvisioner(s.w.Client, s.w.Rec, s.prov, cl, s.w.Clock, deviceallocation.NewController(s.w.Client),
		virtualpods.NewVirtualPodCache(s.w.Client))
	return p, cl, nil
}

func (s *sim) create(st Step) {
	np, ok := s.pool()
	if !ok {
		skip(s.w, st.A, "no-pool")
		return
	}
	if _, dup := s.real[st.C]; dup {
		skip(s.w, st.A, "claim-exists")
		return
	}
	pctx := injection.WithControllerName(s.ctx, "provisioner")
	var names []string
	var cerr error
	via := "provisioner"
	s.w.Emit(trace.M{"e": "Begin", "controller": "provisioner", "object": st.C})
	func() {
		defer func() {
			if r := recover(); r != nil {
				cerr = fmt.Errorf("panic: %v", r)
				s.w.Emit(trace.M{"e": "Panic", "where": "create", "msg": trunc(fmt.Sprint(r), 160)})
			}
		}()
		if np.Spec.Replicas != nil {
			// the static provisioning controller's code path (controllers/static/provisioning)
			via = "static"
			p, cl, err := s.provisioner(nil)
			if err != nil {
				cerr = err
				return
			}
			cl.NodePoolState.ReserveNodeCount(np.Name, 1<<30, 1)
			nct := pscheduling.NewNodeClaimTemplate(np)
			names, cerr = p.CreateNodeClaims(pctx, []*pscheduling.NodeClaim{{NodeClaimTemplate: *nct}}, provisioning.WithReason("provisioned"))
			return
		}
		s.npods++
		pod := world.Pod(world.PodOpts{Name: fmt.Sprintf("pod-%d", s.npods), CPU: 100, MemMi: 64, Phase: corev1.PodPending,
			Tolerations: []corev1.Toleration{{Operator: corev1.TolerationOpExists}}})
		pod.Spec.NodeSelector = st.Sel
		pod.Status.Conditions = []corev1.PodCondition{{Type: corev1.PodScheduled, Status: corev1.ConditionFalse, Reason: corev1.PodReasonUnschedulable}}
		cond := pod.Status.Conditions
		s.w.EnvCreate(pod)
		cur := &corev1.Pod{ObjectMeta: metav1.ObjectMeta{Name: pod.Name, Namespace: pod.Namespace}}
		s.w.EnvMutate(cur, "seed-status", func() { cur.Status.Phase = corev1.PodPending; cur.Status.Conditions = cond })
		defer s.w.EnvRemove(cur, "PodGone")
		p, _, err := s.provisioner(cur)
		if err != nil {
			cerr = err
			return
		}
		res, err := p.Schedule(pctx)
		if err != nil {
			cerr = err
			return
		}
		if len(res.NewNodeClaims) != 1 {
			pend, _ := p.GetPendingPods(pctx)
			if os.Getenv("DRIFT_DEBUG") != "" {
				for _, n := range res.ExistingNodes {
					fmt.Fprintf(os.Stderr, "existing %s pods=%d\n", n.Name(), len(n.Pods))
				}
				for pp, e := range res.PodErrors {
					fmt.Fprintf(os.Stderr, "poderr %s %v\n", pp.Name, e)
				}
				for _, pp := range pend {
					fmt.Fprintf(os.Stderr, "pending %s %v\n", pp.Name, pp.Spec.NodeSelector)
				}
				for _, ev := range s.w.Rec.Events {
					fmt.Fprintf(os.Stderr, "event %s %s\n", ev.Reason, ev.Message)
				}
			}
			cerr = fmt.Errorf("scheduler opened %d nodeclaims (pod errors %d, existing nodes %d, pending pods %d)", len(res.NewNodeClaims),
				len(res.PodErrors), len(res.ExistingNodes), len(pend))
			return
		}
		names, cerr = p.CreateNodeClaims(pctx, res.NewNodeClaims, provisioning.WithReason("provisioned"))
	}()
	created := "-"
	if cerr == nil && len(names) == 1 && names[0] != "" {
		created = names[0]
		s.real[st.C] = created
		s.order = append(s.order, st.C)
	}
	s.w.Emit(trace.M{"e": "End", "controller": "provisioner", "object": st.C, "err": errStr(cerr), "panic": false})
	s.w.Emit(trace.M{"e": "Created", "c": st.C, "name": created, "via": via, "msg": trunc(fmt.Sprint(cerr), 160)})
}

func trunc(s string, n int) string {
	if len(s) > n {
		return s[:n]
	}
	return s
}

func optName(o world.LaunchOption) string {
	return o.Type.Name + "/" + o.Offering.Zone() + "/" + o.Offering.CapacityType()
}

// permitted lists the provider's launch options for the claim, sorted by name.
func (s *sim) permitted(nc *v1.NodeClaim) []world.LaunchOption {
	opts := s.w.Prov.Options(s.ctx, nc)
	sort.SliceStable(opts, func(i, j int) bool { return optName(opts[i]) < optName(opts[j]) })
	return opts
}

// launch runs the real lifecycle controller with the provider forced to the given option.
func (s *sim) launch(c, opt string) bool {
	nc, ok := s.claim(c)
	if !ok {
		skip(s.w, "Launch", "no-claim")
		return false
	}
	if nc.StatusConditions().Get(v1.ConditionTypeLaunched).IsTrue() {
		skip(s.w, "Launch", "already-launched")
		return false
	}
	opts := s.permitted(nc)
	names := lo.Map(opts, func(o world.LaunchOption, _ int) string { return optName(o) })
	var pick *world.LaunchOption
	if strings.HasPrefix(opt, "#") {
		if k, err := strconv.Atoi(opt[1:]); err == nil && k >= 0 && k < len(opts) {
			pick = &opts[k]
		}
	} else {
		for i := range opts {
			if names[i] == opt {
				pick = &opts[i]
			}
		}
	}
	chosen := "-"
	if pick != nil {
		chosen = optName(*pick)
	}
	s.w.Emit(trace.M{"e": "Choice", "c": c, "asked": opt, "chosen": chosen, "permitted": names})
	if pick == nil {
		return false
	}
	s.w.Prov.Choice = func(_ *v1.NodeClaim, _ []world.LaunchOption) world.LaunchOption { return *pick }
	defer func() { s.w.Prov.Choice = nil }()
	s.guarded("nodeclaim.lifecycle", c, func() error { _, err := s.lc.Reconcile(s.ctx, nc); return err })
	return true
}

func (s *sim) driftRec(c string) {
	nc, ok := s.claim(c)
	if !ok {
		skip(s.w, "DriftRec", "no-claim")
		return
	}
	s.guarded("nodeclaim.disruption", c, func() error { _, err := s.dc.Reconcile(s.ctx, nc); return err })
}

func (s *sim) hashRec() {
	np, ok := s.pool()
	if !ok {
		skip(s.w, "HashRec", "no-pool")
		return
	}
	s.guarded("nodepool.hash", poolName, func() error { _, err := s.hc.Reconcile(s.ctx, np); return err })
}

// register lets the kubelet register a Ready node for the claim and runs the lifecycle controller
// until Registered / Initialized.
func (s *sim) register(c string) {
	nc, ok := s.claim(c)
	if !ok || nc.Status.ProviderID == "" {
		skip(s.w, "Register", "not-launched")
		return
	}
	inst, ok := s.w.Prov.Instances[nc.Status.ProviderID]
	if !ok {
		skip(s.w, "Register", "no-instance")
		return
	}
	s.nnodes++
	n := world.NodeFor(inst.NodeClaim, fmt.Sprintf("node-%d", s.nnodes), true)
	for k, v := range nc.Labels {
		n.Labels[k] = v
	}
	world.SetNodeReady(n, true, s.w.Clock.Now())
	if s.w.Get(&corev1.Node{ObjectMeta: metav1.ObjectMeta{Name: n.Name}}) {
		skip(s.w, "Register", "node-exists")
		return
	}
	s.w.EnvCreate(n)
	for i := 0; i < 2; i++ {
		cur, ok := s.claim(c)
		if !ok {
			return
		}
		s.guarded("nodeclaim.lifecycle", c, func() error { _, err := s.lc.Reconcile(s.ctx, cur); return err })
	}
}

// ---------------------------------------------------------------- environment edits

var behavEdits = []func(np *v1.NodePool){
	func(np *v1.NodePool) { np.Spec.Weight = lo.ToPtr(lo.FromPtr(np.Spec.Weight)%50 + 7) },
	func(np *v1.NodePool) {
		np.Spec.Limits = v1.Limits{corev1.ResourceCPU: resource.MustParse(strconv.Itoa(100 + len(np.Spec.Limits)))}
	},
	func(np *v1.NodePool) {
		np.Spec.Disruption.Budgets = append([]v1.Budget{{Nodes: "3", Reasons: []v1.DisruptionReason{v1.DisruptionReasonDrifted}}}, np.Spec.Disruption.Budgets...)
	},
	func(np *v1.NodePool) {
		np.Spec.Disruption.ConsolidateAfter = v1.MustParseNillableDuration("5m")
		np.Spec.Disruption.ConsolidationPolicy = v1.ConsolidationPolicyWhenEmpty
	},
}

func (s *sim) editPool(st Step) {
	np := &v1.NodePool{ObjectMeta: metav1.ObjectMeta{Name: poolName}}
	applied := true
	ok := s.w.EnvMutate(np, "EditPool-"+st.What, func() {
		t := &np.Spec.Template
		switch st.What {
		case "addReq":
			t.Spec.Requirements = append(t.Spec.Requirements, nsr(*st.Req))
		case "delReq":
			if st.Idx < 0 || st.Idx >= len(t.Spec.Requirements) {
				applied = false
				return
			}
			t.Spec.Requirements = append(append([]v1.NodeSelectorRequirementWithMinValues{}, t.Spec.Requirements[:st.Idx]...), t.Spec.Requirements[st.Idx+1:]...)
		case "delReqKey":
			t.Spec.Requirements = lo.Reject(t.Spec.Requirements, func(r v1.NodeSelectorRequirementWithMinValues, _ int) bool { return r.Key == st.Key })
		case "reorderReqs":
			r := t.Spec.Requirements
			for i, j := 0, len(r)-1; i < j; i, j = i+1, j-1 {
				r[i], r[j] = r[j], r[i]
			}
		case "taint+":
			t.Spec.Taints = append(t.Spec.Taints, taintOf(st.Key))
		case "taint-":
			t.Spec.Taints = lo.Reject(t.Spec.Taints, func(x corev1.Taint, _ int) bool { return x.Key == "example.com/"+st.Key })
		case "setTaints", "setStartupTaints":
			var ts []corev1.Taint
			for _, k := range strings.Split(st.Val, ",") {
				if k != "" && k != "-" {
					ts = append(ts, taintOf(k))
				}
			}
			if st.What == "setTaints" {
				t.Spec.Taints = ts
			} else {
				t.Spec.StartupTaints = ts
			}
		case "taintReorder":
			r := t.Spec.Taints
			for i, j := 0, len(r)-1; i < j; i, j = i+1, j-1 {
				r[i], r[j] = r[j], r[i]
			}
		case "startupTaintReorder":
			r := t.Spec.StartupTaints
			for i, j := 0, len(r)-1; i < j; i, j = i+1, j-1 {
				r[i], r[j] = r[j], r[i]
			}
		case "startupTaint+":
			t.Spec.StartupTaints = append(t.Spec.StartupTaints, taintOf(st.Key))
		case "tlabel":
			if st.Val == "-" {
				delete(t.Labels, st.Key)
			} else {
				t.Labels = lo.Assign(t.Labels, map[string]string{st.Key: st.Val})
			}
		case "tannotation":
			if st.Val == "-" {
				delete(t.Annotations, st.Key)
			} else {
				t.Annotations = lo.Assign(t.Annotations, map[string]string{st.Key: st.Val})
			}
		case "expireAfter":
			t.Spec.ExpireAfter = v1.MustParseNillableDuration(st.Val)
		case "tgp":
			if st.Val == "-" {
				t.Spec.TerminationGracePeriod = nil
			} else {
				d, _ := time.ParseDuration(st.Val)
				t.Spec.TerminationGracePeriod = &metav1.Duration{Duration: d}
			}
		case "behav":
			behavEdits[((st.N%len(behavEdits))+len(behavEdits))%len(behavEdits)](np)
		case "hashAnn":
			np.Annotations = lo.Assign(np.Annotations, map[string]string{v1.NodePoolHashAnnotationKey: st.Val})
		case "verAnn":
			np.Annotations = lo.Assign(np.Annotations, map[string]string{v1.NodePoolHashVersionAnnotationKey: st.Val})
		case "dropAnn":
			delete(np.Annotations, v1.NodePoolHashAnnotationKey)
			delete(np.Annotations, v1.NodePoolHashVersionAnnotationKey)
		default:
			applied = false
		}
		if applied && !strings.HasSuffix(st.What, "Ann") {
			np.Generation++
			// the nodepool validation / readiness controllers have observed the new generation
			for i := range np.Status.Conditions {
				np.Status.Conditions[i].ObservedGeneration = np.Generation
			}
		}
	})
	if !ok || !applied {
		skip(s.w, "EditPool", "not-applicable:"+st.What)
	}
}

// ageVersion rewrites the hash annotations of the pool and of every NodeClaim as an EARLIER Karpenter
// release (hash version OldVersion, a different hash algorithm) would have left them, preserving for
// each claim whether its hash equals the pool's.
func (s *sim) ageVersion() {
	np, ok := s.pool()
	if !ok {
		skip(s.w, "AgeVersion", "no-pool")
		return
	}
	cur := np.Annotations[v1.NodePoolHashAnnotationKey]
	old := func(h string) string { return "old-" + h }
	p := &v1.NodePool{ObjectMeta: metav1.ObjectMeta{Name: poolName}}
	s.w.EnvMutate(p, "AgeVersion", func() {
		p.Annotations = lo.Assign(p.Annotations, map[string]string{v1.NodePoolHashAnnotationKey: old(cur), v1.NodePoolHashVersionAnnotationKey: OldVersion})
	})
	for _, c := range s.order {
		nc, ok := s.claim(c)
		if !ok || nc.Annotations[v1.NodePoolHashVersionAnnotationKey] != v1.NodePoolHashVersion {
			continue
		}
		h := nc.Annotations[v1.NodePoolHashAnnotationKey]
		x := &v1.NodeClaim{ObjectMeta: metav1.ObjectMeta{Name: nc.Name}}
		s.w.EnvMutate(x, "AgeVersion", func() {
			x.Annotations = lo.Assign(x.Annotations, map[string]string{v1.NodePoolHashAnnotationKey: old(h), v1.NodePoolHashVersionAnnotationKey: OldVersion})
		})
	}
}

func (s *sim) editClaim(st Step) {
	nc, ok := s.claim(st.C)
	if !ok {
		skip(s.w, "EditClaim", "no-claim")
		return
	}
	x := &v1.NodeClaim{ObjectMeta: metav1.ObjectMeta{Name: nc.Name}}
	s.w.EnvMutate(x, "EditClaim-"+st.What, func() {
		switch st.What {
		case "label":
			if st.Val == "-" {
				delete(x.Labels, st.Key)
			} else {
				x.Labels = lo.Assign(x.Labels, map[string]string{st.Key: st.Val})
			}
		case "hashAnn":
			x.Annotations = lo.Assign(x.Annotations, map[string]string{v1.NodePoolHashAnnotationKey: st.Val})
		case "verAnn":
			x.Annotations = lo.Assign(x.Annotations, map[string]string{v1.NodePoolHashVersionAnnotationKey: st.Val})
		case "copyPoolHash": // the claim's hash string equals the pool's annotation (whatever the versions are)
			if np, ok := s.pool(); ok {
				x.Annotations = lo.Assign(x.Annotations, map[string]string{v1.NodePoolHashAnnotationKey: np.Annotations[v1.NodePoolHashAnnotationKey]})
			}
		case "oldStamp": // written by a replica of the previous release
			x.Annotations = lo.Assign(x.Annotations, map[string]string{v1.NodePoolHashAnnotationKey: "old-" + x.Annotations[v1.NodePoolHashAnnotationKey],
				v1.NodePoolHashVersionAnnotationKey: OldVersion})
		case "dropAnn":
			delete(x.Annotations, v1.NodePoolHashAnnotationKey)
			delete(x.Annotations, v1.NodePoolHashVersionAnnotationKey)
		}
	})
}

func (s *sim) catalogEdit(st Step) {
	switch st.A {
	case "RemoveType":
		s.types = lo.Reject(s.types, func(t TypeSpec, _ int) bool { return t.Name == st.T })
	case "RemoveOffering":
		for i := range s.types {
			if s.types[i].Name == st.T {
				s.types[i].Offs = lo.Reject(s.types[i].Offs, func(o OffSpec, _ int) bool { return o.Zone == st.Zone && o.CT == st.CT })
			}
		}
	case "OfferingUnavailable", "OfferingAvailable":
		for i := range s.types {
			if s.types[i].Name == st.T {
				for j := range s.types[i].Offs {
					if o := &s.types[i].Offs[j]; o.Zone == st.Zone && o.CT == st.CT {
						o.Unavail = st.A == "OfferingUnavailable"
					}
				}
			}
		}
	case "RestoreCatalog":
		s.types = s.baseTypes()
	}
	s.rebuildCatalog()
	s.w.Emit(trace.M{"e": "Env", "what": st.A, "kind": "Catalog", "name": st.T, "post": trace.M{"exists": true}})
}

func (s *sim) baseTypes() []TypeSpec {
	if len(s.scn.Types) > 0 {
		b, _ := json.Marshal(s.scn.Types)
		var out []TypeSpec
		_ = json.Unmarshal(b, &out)
		return out
	}
	return defaultTypes()
}

// ---------------------------------------------------------------- observation

const maxInt32 = 1<<31 - 1

// intLabels: the label values that are base-10 integers (as Kubernetes' Gt/Lt parse them), clamped to
// what TLC's Json module can hold; -1 = not an integer.
func intLabels(m map[string]string) map[string]int {
	out := map[string]int{}
	for k, v := range m {
		n, err := strconv.ParseInt(v, 10, 64)
		switch {
		case err != nil || n < 0:
			out[k] = -1
		case n > maxInt32:
			out[k] = maxInt32
		default:
			out[k] = int(n)
		}
	}
	return out
}

func absReq(r v1.NodeSelectorRequirementWithMinValues, cls map[string]string) trace.M {
	n := -1
	if len(r.Values) == 1 {
		if x, err := strconv.ParseInt(r.Values[0], 10, 64); err == nil && x >= 0 && x <= maxInt32 {
			n = int(x)
		}
	}
	vals := r.Values
	if vals == nil {
		vals = []string{}
	}
	c := cls[r.Key]
	if c == "" {
		c = "-"
	}
	return trace.M{"key": r.Key, "op": string(r.Operator), "vals": vals, "n": n, "min": lo.FromPtrOr(r.MinValues, -1), "cls": c}
}

func condStatus(nc *v1.NodeClaim, t string) (string, string) {
	c := nc.StatusConditions().Get(t)
	if c == nil {
		return "Absent", "-"
	}
	r := c.Reason
	if r == "" {
		r = "-"
	}
	return string(c.Status), r
}

func dash(s string) string {
	if s == "" {
		return "-"
	}
	return s
}

func annOr(m map[string]string, k string) string {
	if v, ok := m[k]; ok {
		return "=" + v // "=" prefix: present (possibly empty); "-" : absent
	}
	return "-"
}

// canonTemplate: the content of .spec.template without the requirements, as the API sees it (JSON), with every list
// sorted - an order-insensitive canonical form that does not depend on (*NodePool).Hash().
func canonTemplate(np *v1.NodePool) string {
	t := np.Spec.Template.DeepCopy()
	t.Spec.Requirements = nil
	b, err := json.Marshal(t)
	if err != nil {
		return "?"
	}
	var x any
	if err := json.Unmarshal(b, &x); err != nil {
		return "?"
	}
	var canon func(v any) any
	canon = func(v any) any {
		switch y := v.(type) {
		case map[string]any:
			for k := range y {
				y[k] = canon(y[k])
			}
			return y
		case []any:
			for i := range y {
				y[i] = canon(y[i])
			}
			sort.Slice(y, func(i, j int) bool {
				a, _ := json.Marshal(y[i])
				c, _ := json.Marshal(y[j])
				return string(a) < string(c)
			})
			return y
		}
		return v
	}
	out, _ := json.Marshal(canon(x))
	sum := sha256.Sum256(out)
	return "=" + hex.EncodeToString(sum[:8])
}

func (s *sim) obs(after string) {
	ev := trace.M{"e": "Obs", "after": after, "now": s.w.Clock.Sec()}
	if np, ok := s.pool(); ok {
		// class of each key = operators of the pool's requirements on that key (witness signatures only)
		ops := map[string][]string{}
		for _, r := range np.Spec.Template.Spec.Requirements {
			ops[r.Key] = append(ops[r.Key], string(r.Operator))
		}
		cls := map[string]string{}
		for k, o := range ops {
			// normalised operator classes: Gt / Gte / Lt / Lte = "bounded"
			o = lo.Uniq(lo.Map(o, func(x string, _ int) string {
				switch x {
				case "Gt", "Gte", "Lt", "Lte":
					return "bounded"
				}
				return x
			}))
			sort.Strings(o)
			kc := "custom"
			if v1.WellKnownLabels.Has(k) {
				kc = "wellknown"
			} else if _, ok := aliasKeys[k]; ok {
				kc = "alias"
			}
			cls[k] = kc + ":" + strings.Join(o, "+")
		}
		reqs := []trace.M{}
		for _, r := range np.Spec.Template.Spec.Requirements {
			reqs = append(reqs, absReq(r, cls))
		}
		ev["pool"] = trace.M{"exists": true, "hashAnn": annOr(np.Annotations, v1.NodePoolHashAnnotationKey),
			"verAnn": annOr(np.Annotations, v1.NodePoolHashVersionAnnotationKey), "specHash": "=" + np.Hash(), "tmplCanon": canonTemplate(np), "reqs": reqs,
			"static": np.Spec.Replicas != nil, "gen": int(np.Generation)}
	} else {
		ev["pool"] = trace.M{"exists": false, "hashAnn": "-", "verAnn": "-", "specHash": "-", "tmplCanon": "-", "reqs": []trace.M{}, "static": false, "gen": 0}
	}
	claims := []trace.M{}
	for _, c := range s.order {
		nc, ok := s.claim(c)
		if !ok {
			claims = append(claims, trace.M{"name": c, "exists": false, "launched": "Absent", "registered": "Absent", "initialized": "Absent",
				"drifted": "Absent", "reason": "-", "deleting": false, "hashAnn": "-", "verAnn": "-", "labels": map[string]string{},
				"ilabels": map[string]int{}, "created": -1, "pool": "-", "provDrift": false})
			continue
		}
		l, _ := condStatus(nc, v1.ConditionTypeLaunched)
		r, _ := condStatus(nc, v1.ConditionTypeRegistered)
		i, _ := condStatus(nc, v1.ConditionTypeInitialized)
		d, reason := condStatus(nc, v1.ConditionTypeDrifted)
		claims = append(claims, trace.M{"name": c, "exists": true, "launched": l, "registered": r, "initialized": i, "drifted": d, "reason": reason,
			"deleting": !nc.DeletionTimestamp.IsZero(), "hashAnn": annOr(nc.Annotations, v1.NodePoolHashAnnotationKey),
			"verAnn": annOr(nc.Annotations, v1.NodePoolHashVersionAnnotationKey), "labels": lo.Assign(map[string]string{}, nc.Labels),
			"ilabels": intLabels(nc.Labels), "created": world.Sec(nc.CreationTimestamp.Time), "pool": dash(nc.Labels[v1.NodePoolLabelKey]),
			"provDrift": s.prov.drifted[nc.Name]})
	}
	ev["claims"] = claims
	ts := []trace.M{}
	for _, t := range s.types {
		offs := []trace.M{}
		for _, o := range t.Offs {
			offs = append(offs, trace.M{"zone": o.Zone, "ct": o.CT, "avail": !o.Unavail})
		}
		ts = append(ts, trace.M{"name": t.Name, "offs": offs})
	}
	ev["types"] = ts
	s.w.Emit(ev)
}

// ---------------------------------------------------------------- the run

func (s *sim) step(st Step) error {
	w := s.w
	// the behaviour's action itself (environment input); ghosts of the trace spec are driven by it
	w.Emit(trace.M{"e": "Step", "a": st.A, "c": dash(st.C), "what": dash(st.What), "key": dash(st.Key)})
	switch st.A {
	case "Create":
		s.create(st)
	case "Launch":
		s.launch(st.C, st.Opt)
	case "Sweep":
		// every launch option the provider permits for a NodeClaim of this pool: one fresh claim per option
		s.sweep(st)
	case "Register":
		s.register(st.C)
	case "DriftRec":
		s.driftRec(st.C)
	case "DriftAll":
		for i, c := range append([]string{}, s.order...) {
			if i > 0 {
				s.obs("DriftAll") // post-state of the previous reconcile = pre-state of the next
			}
			s.driftRec(c)
		}
	case "HashRec":
		s.hashRec()
	case "EditPool":
		s.editPool(st)
	case "AgeVersion":
		s.ageVersion()
	case "EditClaim":
		s.editClaim(st)
	case "ProvDrift":
		if rn, ok := s.real[st.C]; ok {
			s.prov.drifted[rn] = st.On
			w.Emit(trace.M{"e": "Env", "what": "ProvDrift", "kind": "Provider", "name": st.C, "post": trace.M{"exists": true}})
		} else {
			skip(w, st.A, "no-claim")
		}
	case "RemoveType", "RemoveOffering", "RestoreCatalog", "OfferingUnavailable", "OfferingAvailable":
		s.catalogEdit(st)
	case "Tick":
		w.Clock.Step(time.Duration(st.D) * time.Second)
	case "Restart":
		s.restart()
		w.Emit(trace.M{"e": "Restart"})
	case "DeleteClaim":
		if nc, ok := s.claim(st.C); ok {
			_ = w.Client.Delete(world.WithActor(context.Background(), "env"), nc)
		} else {
			skip(w, st.A, "no-claim")
		}
	default:
		return fmt.Errorf("unknown step %q", st.A)
	}
	s.obs(st.A)
	return nil
}

func (s *sim) sweep(st Step) {
	probe := st.C + "-0"
	s.create(Step{A: "Create", C: probe, Sel: st.Sel})
	nc, ok := s.claim(probe)
	if !ok {
		return
	}
	n := len(s.permitted(nc))
	for k := 0; k < n; k++ {
		c := fmt.Sprintf("%s-%d", st.C, k)
		if k > 0 {
			s.create(Step{A: "Create", C: c, Sel: st.Sel})
		}
		s.launch(c, "#"+strconv.Itoa(k))
		if st.On {
			s.register(c)
		}
		s.obs("Sweep-launch")
		s.driftRec(c)
		s.obs("Sweep-drift")
	}
}

// RunOne executes one behaviour in a fresh world, writing its trace.
func RunOne(b Behaviour, tw *trace.Writer) error {
	w := world.New()
	s := &sim{w: w, ctx: world.Ctx(), scn: b.Scn, real: map[string]string{}}
	s.prov = &driftProvider{Provider: w.Prov, w: w, drifted: map[string]bool{}}
	s.types = s.baseTypes()
	s.rebuildCatalog()
	behJSON, _ := json.Marshal(b)
	tw.Begin(trace.M{"module": "Drift", "part": "world", "behJson": string(behJSON), "tag": dash(b.Tag), "cur": "=" + v1.NodePoolHashVersion,
		"typeKey": corev1.LabelInstanceTypeStable, "zoneKey": corev1.LabelTopologyZone, "ctKey": v1.CapacityTypeLabelKey,
		"instanceTypeAge": 3600, "pool": poolName})
	w.Sink = func(ev trace.M) {
		switch ev["e"] {
		case "Api", "Env", "Prov", "Tick", "Read": // not consumed by Drift_Trace (the Obs events carry the observed state)
			return
		}
		tw.Emit(ev)
	}
	w.EnvCreate(world.NodeClass())
	np := world.NodePool(poolName)
	for _, r := range b.Scn.Reqs {
		np.Spec.Template.Spec.Requirements = append(np.Spec.Template.Spec.Requirements, nsr(r))
	}
	if len(b.Scn.TLabels) > 0 {
		np.Spec.Template.Labels = lo.Assign(map[string]string{}, b.Scn.TLabels)
	}
	for _, t := range b.Scn.Taints {
		np.Spec.Template.Spec.Taints = append(np.Spec.Template.Spec.Taints, taintOf(t))
	}
	if b.Scn.Static {
		np.Spec.Replicas = lo.ToPtr(int64(2))
	}
	np.Generation = 1
	np.StatusConditions().SetTrue(v1.ConditionTypeValidationSucceeded)
	np.StatusConditions().SetTrue(v1.ConditionTypeNodeClassReady)
	np.StatusConditions().SetTrue(status.ConditionReady)
	st := np.Status
	w.EnvCreate(np)
	cur := &v1.NodePool{ObjectMeta: metav1.ObjectMeta{Name: poolName}}
	w.EnvMutate(cur, "seed-status", func() { cur.Status = st })
	s.restart()
	s.obs("Init")
	for _, stp := range b.Steps {
		if err := s.step(stp); err != nil {
			return err
		}
	}
	_ = resources.Fits
	return nil
}

func RunWorld(args []string) error {
	fs := flag.NewFlagSet("drift-world", flag.ContinueOnError)
	in := fs.String("in", "", "behaviours JSON")
	out := fs.String("out", "traces", "output directory")
	shards := fs.Int("shards", 8, "trace shards")
	prefix := fs.String("prefix", "drift-world", "trace file prefix")
	if err := fs.Parse(args); err != nil {
		return err
	}
	raw, err := os.ReadFile(*in)
	if err != nil {
		return err
	}
	var behs []Behaviour
	if err := json.Unmarshal(raw, &behs); err != nil {
		return err
	}
	tw, err := trace.NewWriter(*out, *prefix, *shards)
	if err != nil {
		return err
	}
	for i, b := range behs {
		if err := RunOne(b, tw); err != nil {
			return fmt.Errorf("behaviour %d: %w", i, err)
		}
	}
	paths := tw.Close()
	sum, _ := json.Marshal(trace.M{"traces": tw.N, "lines": tw.Lines, "files": paths})
	fmt.Println(string(sum))
	return nil
}
