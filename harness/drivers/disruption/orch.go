package disruption

// Orchestration driver (C08, Orchestration.tla): the command protocol of the disruption queue
// (StartCommand: taint -> DisruptionReason -> create replacements -> MarkForDeletion -> enqueue;
// Queue.Reconcile: wait / delete candidates / timeout / rollback; Controller.Reconcile: stale cleanup)
// on the cluster builder of this package.  Additive: new step kinds on top of the disruption driver's
// (schema: spec/DISRUPT_TRACE.md section 5); registered as driver "orch".
//
// Commands are built the way the methods build them: candidates through GetCandidates/NewCandidate from
// the state.Cluster the real informers hydrated, replacements either as NodeClaimTemplate literals (what
// StaticDrift does) or from SimulateScheduling (what Drift / consolidation do), wrapped in exported
// Command / Candidate / Replacement values and handed to the real Queue.StartCommand.  The driver only
// records: every API call is a choke-point event attributed to its actor, in-memory state (marks, queue
// membership) is projected through exported accessors after every controller step.

import (
	"context"
	"encoding/json"
	"flag"
	"fmt"
	"os"
	"sort"
	"sync"
	"time"

	"github.com/awslabs/operatorpkg/status"
	"github.com/google/uuid"
	"github.com/samber/lo"
	corev1 "k8s.io/api/core/v1"
	metav1 "k8s.io/apimachinery/pkg/apis/meta/v1"
	"k8s.io/client-go/util/retry"

	v1 "sigs.k8s.io/karpenter/pkg/apis/v1"
	kdisruption "sigs.k8s.io/karpenter/pkg/controllers/disruption"
	nclifecycle "sigs.k8s.io/karpenter/pkg/controllers/nodeclaim/lifecycle"
	pscheduling "sigs.k8s.io/karpenter/pkg/controllers/provisioning/scheduling"
	statenodeclaimgc "sigs.k8s.io/karpenter/pkg/controllers/state/nodeclaimgc"
	"sigs.k8s.io/karpenter/pkg/operator/injection"
	"sigs.k8s.io/karpenter/pkg/state/nodepoolhealth"

	"verif/harness/reg"
	"verif/harness/trace"
	"verif/harness/world"
)

func init() { reg.Register("orch", RunOrch) }

// CallSpec addresses API calls of a step: empty fields match anything, Sub "" = main resource, "*" = any;
// Nth = the n-th (1-based) matching call.
type CallSpec struct {
	Actor string `json:"actor,omitempty"`
	Verb  string `json:"verb,omitempty"`
	Kind  string `json:"kind,omitempty"`
	Name  string `json:"name,omitempty"`
	Sub   string `json:"sub,omitempty"`
	Nth   int    `json:"nth"`
}

// CutSpec: from the addressed call on (When "before": including it, "after": excluding it) every API call of the
// step fails - the process lost the API server; together with a following Restart this is a crash at that call.
type CutSpec struct {
	CallSpec
	When string `json:"when"`
}

// AtSpec: environment steps executed right before the addressed call is issued (interleaving inside a reconcile).
type AtSpec struct {
	CallSpec
	Steps []OStep `json:"steps"`
}

// OStep = a disruption-driver step or one of
//
//	BuildCmd{cmd, nodes[], method, nrepl, mode}   compute a Command now (candidates as of now), keep it in memory
//	StartCmd{cmd}                                 Queue.StartCommand(cmd)   (CreationTimestamp = now)
//	QueueRec{cmd}                                 Queue.Reconcile for that command ("" = every command in the queue)
//	Cleanup                                       Controller.Reconcile of a controller without methods = stale cleanup only
//	ReplLaunch/ReplInit/ReplVanish{cmd, i, via, lag}   environment acts on the i-th replacement of cmd
//	CandVanish{node, value: both|node|claim}      a candidate's Node and/or NodeClaim disappears from the API (and, unless lag, from the cluster state)
//	Quiescent                                     run queue + cleanup to a fix-point at the current instant, then snapshot
//
// with `faults` (as in the disruption driver), `cut` and `at`.
type OStep struct {
	Step
	Cmd   string   `json:"cmd,omitempty"`
	Nodes []string `json:"nodes,omitempty"`
	NRepl int      `json:"nrepl,omitempty"`
	Mode  string   `json:"mode,omitempty"` // template (default) | simulate
	I     int      `json:"i,omitempty"`
	Via   string   `json:"via,omitempty"` // env (default) | lifecycle
	Lag   bool     `json:"lag,omitempty"` // the informers do not see the change yet
	Cut   *CutSpec `json:"cut,omitempty"`
	At    []AtSpec `json:"at,omitempty"`
}

type OScenario struct {
	Scenario
	OSteps   []OStep `json:"osteps"`
	LogReads bool    `json:"logReads,omitempty"` // log every read as a Read event (enumeration of call positions)
}

type ocmd struct {
	id    string
	cmd   *kdisruption.Command
	cands []trace.M
	nrepl int
}

type osim struct {
	*sim
	built   map[string]*ocmd                 // commands of the current process by id
	ids     map[*kdisruption.Command]string // pointer -> id
	repl    map[string][]string             // replacement NodeClaim names per command id (API objects survive restarts)
	cleanup *kdisruption.Controller
	lc      *nclifecycle.Controller
	gc      *statenodeclaimgc.Controller
	roundN  int
	writes  int // successful API writes seen so far (fix-point detection)
	lagged   [][2]string // objects whose last change the informers have not seen yet (kind, name)
	rmu      sync.Mutex
	starting string // command whose StartCommand is running: its replacement creates are recorded in arrival order

	gmu     sync.Mutex
	gSeen   map[int]int
	gCut    *CutSpec
	gCutHit bool
	gAt     []AtSpec
	gAtDone map[int]bool
	gBusy   bool
}

func (o *osim) fresh() {
	o.built = map[string]*ocmd{}
	o.ids = map[*kdisruption.Command]string{}
	w := o.w
	o.cleanup = kdisruption.NewController(w.Clock, w.Client, o.prov, w.Prov, w.Rec, o.cluster, o.queue, o.cost,
		kdisruption.WithMethods())
	o.lc = nclifecycle.NewController(w.Clock, w.Client, w.Prov, w.Rec, nodepoolhealth.NewState(), nil)
	o.gc = statenodeclaimgc.NewController(w.Client, o.cluster)
}

func matches(c CallSpec, call world.Call) bool {
	return (c.Actor == "" || c.Actor == call.Actor) && (c.Verb == "" || c.Verb == call.Verb) && (c.Kind == "" || c.Kind == call.Kind) &&
		(c.Name == "" || c.Name == call.Name) && (c.Sub == "*" || c.Sub == call.Sub)
}

// gate is the choke-point hook of a step with `cut` / `at`: it runs in the goroutine that is about to issue the call.
func (o *osim) gate(call world.Call) {
	o.gmu.Lock()
	if o.gBusy || call.Actor == "env" {
		o.gmu.Unlock()
		return
	}
	var run []OStep
	for i, a := range o.gAt {
		if o.gAtDone[i] || !matches(a.CallSpec, call) {
			continue
		}
		o.gSeen[i]++
		if o.gSeen[i] == a.Nth || a.Nth == 0 {
			o.gAtDone[i] = true
			run = append(run, a.Steps...)
		}
	}
	cutNow := false
	if o.gCut != nil && !o.gCutHit {
		if o.gSeen[-2] == 1 { // "after": the addressed call went through, this is the next one
			cutNow = true
		} else if matches(o.gCut.CallSpec, call) {
			o.gSeen[-1]++
			if o.gSeen[-1] == o.gCut.Nth || o.gCut.Nth == 0 {
				if o.gCut.When == "after" {
					o.gSeen[-2] = 1
				} else {
					cutNow = true
				}
			}
		}
	}
	if cutNow {
		o.gCutHit = true
	}
	if len(run) > 0 {
		o.gBusy = true
	}
	o.gmu.Unlock()
	if cutNow {
		o.w.Emit(trace.M{"e": "OCut", "verb": call.Verb, "kind": call.Kind, "name": dash(call.Name), "sub": dash(call.Sub)})
		o.w.AddFault(world.Fault{Sub: "*", Nth: 0, Err: "Server"})
	}
	if len(run) > 0 {
		for _, st := range run {
			if err := o.ostep(st); err != nil {
				o.w.Emit(trace.M{"e": "Note", "what": "at-error", "kind": "-", "name": "-", "msg": err.Error()})
			}
		}
		o.gmu.Lock()
		o.gBusy = false
		o.gmu.Unlock()
	}
}

// withPlan runs f under the step's fault plan / cut / at hooks.
func (o *osim) withPlan(st OStep, f func()) {
	w := o.w
	o.gmu.Lock()
	nested := o.gBusy
	o.gmu.Unlock()
	if nested {
		// a controller step run from an `at` hook of another step (two invocations overlapping): it runs plainly, the
		// outer step keeps its plan
		f()
		return
	}
	if len(st.Faults) > 0 {
		w.ClearFaults()
		for _, ft := range st.Faults {
			w.AddFault(world.Fault{Actor: ft.Actor, Verb: ft.Verb, Kind: ft.Kind, Name: ft.Name, Sub: ft.Sub, Nth: ft.Nth, Err: ft.Err})
		}
	}
	if st.Cut != nil || len(st.At) > 0 {
		o.gmu.Lock()
		o.gSeen, o.gCut, o.gCutHit, o.gAt, o.gAtDone = map[int]int{}, st.Cut, false, st.At, map[int]bool{}
		o.gmu.Unlock()
		w.Gate = o.gate
	}
	defer func() {
		w.Gate = nil
		w.ClearFaults()
		// hooks whose call never came (the step took another path): the environment steps still happen, after the step
		o.gmu.Lock()
		var late []OStep
		for i, a := range o.gAt {
			if !o.gAtDone[i] {
				late = append(late, a.Steps...)
			}
		}
		o.gAt, o.gCut = nil, nil
		o.gmu.Unlock()
		for _, ls := range late {
			if err := o.ostep(ls); err != nil {
				o.w.Emit(trace.M{"e": "Note", "what": "at-error", "kind": "-", "name": "-", "msg": err.Error()})
			}
		}
	}()
	f()
}

// memEvent projects the in-memory state the property talks about: deletion marks and queue membership.
func (o *osim) memEvent() {
	nodes := []trace.M{}
	for _, n := range o.cluster.DeepCopyNodes() {
		node, claim := "-", "-"
		if n.Node != nil {
			node = n.Node.Name
		}
		if n.NodeClaim != nil {
			claim = n.NodeClaim.Name
		}
		nodes = append(nodes, trace.M{"pid": dash(n.ProviderID()), "node": node, "claim": claim, "marked": n.MarkedForDeletion(),
			"inQueue": n.ProviderID() != "" && o.queue.HasAny(n.ProviderID())})
	}
	sort.Slice(nodes, func(i, j int) bool { return nodes[i]["pid"].(string)+nodes[i]["claim"].(string) < nodes[j]["pid"].(string)+nodes[j]["claim"].(string) })
	ids := []string{}
	for _, c := range o.queue.GetCommands() {
		ids = append(ids, o.idOf(c))
	}
	sort.Strings(ids)
	o.w.Emit(trace.M{"e": "OMem", "nodes": nodes, "queue": ids, "synced": o.cluster.Synced(o.ctx)})
}

// sync: the informers catch up - first with the changes that were held back (`lag`), then with everything stored.
func (o *osim) sync() {
	l := o.lagged
	o.lagged = nil
	for _, x := range l {
		o.deliver(x[0], x[1], "")
	}
	o.hydrate()
}

func (o *osim) idOf(c *kdisruption.Command) string {
	if id, ok := o.ids[c]; ok {
		return id
	}
	return "?"
}

func candRecs(cs []*kdisruption.Candidate) []trace.M {
	out := []trace.M{}
	for _, c := range cs {
		node, claim := "-", "-"
		if c.Node != nil {
			node = c.Node.Name
		}
		if c.NodeClaim != nil {
			claim = c.NodeClaim.Name
		}
		out = append(out, trace.M{"node": node, "claim": claim, "pid": dash(c.ProviderID())})
	}
	return out
}

func replNames(c *kdisruption.Command) []string {
	out := []string{}
	for _, r := range c.Replacements {
		out = append(out, dash(r.Name))
	}
	return out
}

func (o *osim) skip(st OStep, why string) {
	o.w.Emit(trace.M{"e": "OSkip", "a": st.A, "cmd": dash(st.Cmd), "why": why})
}

func (o *osim) buildCmd(st OStep) error {
	mname := st.Method
	if mname == "" {
		mname = "drift"
	}
	m, err := o.freshMethod(mname)
	if err != nil {
		return err
	}
	ctx := o.dctx()
	all, err := kdisruption.GetCandidates(ctx, o.cluster, o.w.Client, o.w.Rec, o.w.Clock, o.w.Prov,
		func(context.Context, *kdisruption.Candidate) bool { return true }, m.Class(), o.queue)
	if err != nil {
		o.skip(st, "candidates-error")
		return nil
	}
	var cands []*kdisruption.Candidate
	for _, name := range st.Nodes {
		for _, c := range all {
			if c.Name() == name {
				cands = append(cands, c)
			}
		}
	}
	if len(cands) == 0 {
		o.skip(st, "no-candidate")
		return nil
	}
	var results pscheduling.Results
	if st.Mode == "simulate" {
		results, err = kdisruption.SimulateScheduling(ctx, o.w.Client, o.cluster, o.prov, o.w.Clock, o.w.Rec, nil, cands...)
		if err != nil {
			o.skip(st, "simulate-error")
			return nil
		}
	} else {
		np := cands[0].NodePool
		its, _ := o.w.Prov.GetInstanceTypes(ctx, np)
		for i := 0; i < st.NRepl; i++ {
			nct := pscheduling.NewNodeClaimTemplate(np)
			nct.InstanceTypeOptions = its
			results.NewNodeClaims = append(results.NewNodeClaims, &pscheduling.NodeClaim{NodeClaimTemplate: *nct})
		}
	}
	cmd := &kdisruption.Command{Method: m, Candidates: cands, Results: results,
		Replacements: lo.Map(results.NewNodeClaims, func(n *pscheduling.NodeClaim, _ int) *kdisruption.Replacement {
			return &kdisruption.Replacement{NodeClaim: n}
		})}
	oc := &ocmd{id: st.Cmd, cmd: cmd, cands: candRecs(cands), nrepl: len(cmd.Replacements)}
	o.built[st.Cmd] = oc
	o.ids[cmd] = st.Cmd
	o.w.Emit(trace.M{"e": "OCmd", "cmd": st.Cmd, "origin": "built", "method": mname, "reason": string(cmd.Reason()),
		"cands": oc.cands, "nrepl": oc.nrepl, "repl": []string{}, "started": false})
	return nil
}

func (o *osim) startCmd(st OStep) error {
	oc, ok := o.built[st.Cmd]
	if !ok {
		o.skip(st, "unknown-command")
		return nil
	}
	cmd := oc.cmd
	cmd.CreationTimestamp = o.w.Clock.Now()
	cmd.ID = uuid.New()
	o.w.Emit(trace.M{"e": "Begin", "controller": "disruption.start", "object": st.Cmd})
	var errS string
	var panicked bool
	o.rmu.Lock()
	o.starting = st.Cmd
	o.repl[st.Cmd] = nil
	o.rmu.Unlock()
	o.withPlan(st, func() {
		errS, panicked = o.guarded(nil, func() error { return o.queue.StartCommand(o.dctx(), cmd) })
	})
	o.rmu.Lock()
	o.starting = ""
	names := append([]string{}, o.repl[st.Cmd]...) // replacements in the order their creates arrived (also when StartCommand failed)
	o.rmu.Unlock()
	started := false
	for _, c := range o.queue.GetCommands() {
		if c == cmd {
			started = true
		}
	}
	if !st.Lag {
		o.sync()
	}
	o.memEvent()
	o.w.Emit(trace.M{"e": "End", "controller": "disruption.start", "object": st.Cmd, "err": short(errS), "panic": panicked,
		"started": started, "cands": candRecs(cmd.Candidates), "repl": names, "outcome": "-"})
	return nil
}

func (o *osim) queueRecOne(st OStep, cmd *kdisruption.Command) {
	id := o.idOf(cmd)
	if len(cmd.Candidates) == 0 || cmd.Candidates[0].NodeClaim == nil {
		o.skip(st, "no-candidate-claim")
		return
	}
	nc := cmd.Candidates[0].NodeClaim.DeepCopy()
	o.w.Emit(trace.M{"e": "Begin", "controller": "disruption.queue", "object": id})
	var errS string
	var panicked bool
	o.withPlan(st, func() {
		errS, panicked = o.guarded(nil, func() error { _, e := o.queue.Reconcile(o.ctx, nc); return e })
	})
	outcome := "failed"
	for _, c := range o.queue.GetCommands() {
		if c == cmd {
			outcome = "waiting"
		}
	}
	if outcome != "waiting" && cmd.Succeeded {
		outcome = "succeeded"
	}
	if !st.Lag {
		o.sync()
	}
	o.memEvent()
	o.w.Emit(trace.M{"e": "End", "controller": "disruption.queue", "object": id, "err": short(errS), "panic": panicked,
		"started": false, "cands": candRecs(cmd.Candidates), "repl": replNames(cmd), "outcome": outcome})
}

func (o *osim) queueRec(st OStep) {
	cmds := o.queue.GetCommands()
	sort.Slice(cmds, func(i, j int) bool { return o.idOf(cmds[i]) < o.idOf(cmds[j]) })
	n := 0
	for _, c := range cmds {
		if st.Cmd == "" || o.idOf(c) == st.Cmd {
			o.queueRecOne(st, c)
			n++
		}
	}
	if n == 0 {
		o.skip(st, "not-in-queue")
	}
}

func (o *osim) runCleanup(st OStep) {
	o.w.Emit(trace.M{"e": "Begin", "controller": "disruption.cleanup", "object": "-"})
	var errS string
	var panicked bool
	o.withPlan(st, func() {
		errS, panicked = o.guarded(nil, func() error { _, e := o.cleanup.Reconcile(o.ctx); return e })
	})
	o.sync()
	o.memEvent()
	o.w.Emit(trace.M{"e": "End", "controller": "disruption.cleanup", "object": "-", "err": short(errS), "panic": panicked,
		"started": false, "cands": []trace.M{}, "repl": []string{}, "outcome": "-"})
}

// discover registers commands the real controller started in a Round.
func (o *osim) discover() {
	for _, c := range o.queue.GetCommands() {
		if _, ok := o.ids[c]; ok {
			continue
		}
		o.roundN++
		id := fmt.Sprintf("R%d", o.roundN)
		o.ids[c] = id
		mn := "unknown"
		if c.Method != nil {
			mn = methodName(c.Method)
		}
		oc := &ocmd{id: id, cmd: c, cands: candRecs(c.Candidates), nrepl: len(c.Replacements)}
		o.built[id] = oc
		o.repl[id] = replNames(c)
		o.w.Emit(trace.M{"e": "OCmd", "cmd": id, "origin": "round", "method": mn, "reason": string(c.Reason()),
			"cands": oc.cands, "nrepl": oc.nrepl, "repl": replNames(c), "started": true})
	}
}

func (o *osim) replClaim(st OStep) (*v1.NodeClaim, bool) {
	o.rmu.Lock()
	names := append([]string{}, o.repl[st.Cmd]...)
	o.rmu.Unlock()
	if st.I < 0 || st.I >= len(names) || names[st.I] == "-" {
		return nil, false
	}
	nc := &v1.NodeClaim{ObjectMeta: metav1.ObjectMeta{Name: names[st.I]}}
	if !o.w.Get(nc) {
		return nil, false
	}
	return nc, true
}

func setCond(nc *v1.NodeClaim, t string, at time.Time) {
	for i := range nc.Status.Conditions {
		if nc.Status.Conditions[i].Type == t {
			if nc.Status.Conditions[i].Status != metav1.ConditionTrue {
				nc.Status.Conditions[i].Status = metav1.ConditionTrue
				nc.Status.Conditions[i].LastTransitionTime = metav1.NewTime(at)
				nc.Status.Conditions[i].Reason = t
			}
			return
		}
	}
	nc.Status.Conditions = append(nc.Status.Conditions, status.Condition{Type: t, Status: metav1.ConditionTrue, Reason: t,
		LastTransitionTime: metav1.NewTime(at)})
}

// launchEnv: the environment plays the lifecycle controller's launch (provider id, Launched).
func (o *osim) launchEnv(nc *v1.NodeClaim, lag bool) {
	now := o.w.Clock.Now()
	o.w.EnvMutate(nc, "ReplLaunch", func() {
		if nc.Status.ProviderID == "" {
			nc.Status.ProviderID = "verif://" + nc.Name
		}
		if !lo.Contains(nc.Finalizers, v1.TerminationFinalizer) {
			nc.Finalizers = append(nc.Finalizers, v1.TerminationFinalizer)
		}
		it := o.types["small"]
		if it == nil && len(o.w.Prov.Types) > 0 {
			it = o.w.Prov.Types[0]
		}
		if it != nil && nc.Status.Capacity == nil {
			nc.Status.Capacity = it.Capacity.DeepCopy()
			nc.Status.Allocatable = it.Allocatable().DeepCopy()
			if nc.Labels == nil {
				nc.Labels = map[string]string{}
			}
			nc.Labels[corev1.LabelInstanceTypeStable] = it.Name
			nc.Labels[corev1.LabelTopologyZone] = "zone-a"
			nc.Labels[v1.CapacityTypeLabelKey] = "on-demand"
		}
		setCond(nc, v1.ConditionTypeLaunched, now)
	})
	if !lag {
		o.deliver("NodeClaim", nc.Name, "")
	} else {
		o.lagged = append(o.lagged, [2]string{"NodeClaim", nc.Name})
	}
}

func (o *osim) initEnv(nc *v1.NodeClaim, lag bool) {
	o.launchEnv(nc, true)
	now := o.w.Clock.Now()
	nodeName := "node-" + nc.Name
	node := &corev1.Node{ObjectMeta: metav1.ObjectMeta{Name: nodeName}}
	if !o.w.Get(node) {
		_ = o.w.Get(nc)
		n := world.NodeFor(nc, nodeName, false)
		n.Labels = lo.Assign(nc.Labels, n.Labels, map[string]string{v1.NodeRegisteredLabelKey: "true", v1.NodeInitializedLabelKey: "true"})
		n.Finalizers = []string{v1.TerminationFinalizer}
		world.SetNodeReady(n, true, now)
		o.w.EnvCreate(n)
	}
	o.w.EnvMutate(nc, "ReplInit", func() {
		nc.Status.NodeName = nodeName
		setCond(nc, v1.ConditionTypeRegistered, now)
		setCond(nc, v1.ConditionTypeInitialized, now)
	})
	if !lag {
		o.deliver("NodeClaim", nc.Name, "")
		o.deliver("Node", nodeName, "")
	} else {
		o.lagged = append(o.lagged, [2]string{"NodeClaim", nc.Name}, [2]string{"Node", nodeName})
	}
}

// initLifecycle: the real nodeclaim lifecycle controller launches, registers and initializes the replacement; the
// environment only plays the kubelet (the Node object appears Ready).
func (o *osim) initLifecycle(nc *v1.NodeClaim, upTo string) {
	ctx := injection.WithControllerName(o.ctx, "nodeclaim.lifecycle")
	rec := func() {
		cur := &v1.NodeClaim{ObjectMeta: metav1.ObjectMeta{Name: nc.Name}}
		if !o.w.Get(cur) {
			return
		}
		o.w.Emit(trace.M{"e": "Begin", "controller": "nodeclaim.lifecycle", "object": nc.Name})
		errS, panicked := o.guarded(nil, func() error { _, e := o.lc.Reconcile(ctx, cur); return e })
		o.w.Emit(trace.M{"e": "End", "controller": "nodeclaim.lifecycle", "object": nc.Name, "err": short(errS), "panic": panicked,
			"started": false, "cands": []trace.M{}, "repl": []string{}, "outcome": "-"})
	}
	rec()
	rec()
	o.deliver("NodeClaim", nc.Name, "")
	if upTo == "launch" {
		return
	}
	cur := &v1.NodeClaim{ObjectMeta: metav1.ObjectMeta{Name: nc.Name}}
	if !o.w.Get(cur) || cur.Status.ProviderID == "" {
		return
	}
	nodeName := "node-" + nc.Name
	node := &corev1.Node{ObjectMeta: metav1.ObjectMeta{Name: nodeName}}
	if !o.w.Get(node) {
		n := world.NodeFor(cur, nodeName, true)
		n.Labels = lo.Assign(cur.Labels, n.Labels)
		world.SetNodeReady(n, true, o.w.Clock.Now())
		o.w.EnvCreate(n)
	}
	rec()
	rec()
	rec()
	o.deliver("NodeClaim", nc.Name, "")
	o.deliver("Node", nodeName, "")
}

// vanishLifecycle: the provider has no capacity (ICE); the real lifecycle controller deletes the un-launched replacement
// and finalizes it - the way a replacement really disappears.
func (o *osim) vanishLifecycle(nc *v1.NodeClaim) {
	ctx := injection.WithControllerName(o.ctx, "nodeclaim.lifecycle")
	for i := 0; i < 6; i++ {
		cur := &v1.NodeClaim{ObjectMeta: metav1.ObjectMeta{Name: nc.Name}}
		if !o.w.Get(cur) {
			break
		}
		if cur.Status.ProviderID == "" && cur.DeletionTimestamp.IsZero() {
			o.w.Prov.CreateOutcomes = []string{"ICE"}
		}
		o.w.Emit(trace.M{"e": "Begin", "controller": "nodeclaim.lifecycle", "object": nc.Name})
		errS, panicked := o.guarded(nil, func() error { _, e := o.lc.Reconcile(ctx, cur); return e })
		o.w.Emit(trace.M{"e": "End", "controller": "nodeclaim.lifecycle", "object": nc.Name, "err": short(errS), "panic": panicked,
			"started": false, "cands": []trace.M{}, "repl": []string{}, "outcome": "-"})
		o.w.Prov.CreateOutcomes = nil
	}
	o.deliver("NodeClaim", nc.Name, "")
}

func (o *osim) replStep(st OStep) {
	nc, ok := o.replClaim(st)
	if !ok {
		o.skip(st, "no-replacement")
		return
	}
	switch st.A {
	case "ReplLaunch":
		if st.Via == "lifecycle" {
			o.initLifecycle(nc, "launch")
		} else {
			o.launchEnv(nc, st.Lag)
		}
	case "ReplInit":
		if st.Via == "lifecycle" {
			o.initLifecycle(nc, "init")
		} else {
			o.initEnv(nc, st.Lag)
		}
	case "ReplVanish":
		if st.Via == "lifecycle" {
			o.vanishLifecycle(nc)
			return
		}
		nodeName := nc.Status.NodeName
		o.w.EnvRemove(nc, "ReplVanish")
		if nodeName != "" {
			o.w.EnvRemove(&corev1.Node{ObjectMeta: metav1.ObjectMeta{Name: nodeName}}, "ReplVanish")
		}
		if !st.Lag {
			o.deliver("NodeClaim", nc.Name, "")
			if nodeName != "" {
				o.deliver("Node", nodeName, "")
			}
		} else {
			o.lagged = append(o.lagged, [2]string{"NodeClaim", nc.Name})
			if nodeName != "" {
				o.lagged = append(o.lagged, [2]string{"Node", nodeName})
			}
		}
	}
}

// quiescent: the environment is fair to pending launches (an un-launched NodeClaim keeps the cluster state unsynced and
// the disruption controller idle), then queue and stale cleanup run until nothing changes at the current instant.
func (o *osim) quiescent(st OStep) {
	o.w.Emit(trace.M{"e": "Note", "what": "quiescent-begin", "kind": "-", "name": "-", "msg": "-"})
	var claims v1.NodeClaimList
	o.w.List(&claims)
	for i := range claims.Items {
		if claims.Items[i].Status.ProviderID == "" && claims.Items[i].DeletionTimestamp.IsZero() {
			o.launchEnv(&claims.Items[i], false)
		}
	}
	o.sync()
	// Karpenter's own healer for the create/delete race of the provisioner's post-create seed (state.nodeclaimgc, runs
	// 15 s after every NodeClaim create): an unlaunched entry of a NodeClaim that no longer exists would keep the cluster
	// state unsynced - and the disruption controller idle - for ever
	o.rmu.Lock()
	var created []string
	for _, names := range o.repl {
		created = append(created, names...)
	}
	o.rmu.Unlock()
	sort.Strings(created)
	for _, name := range created {
		if name == "-" || name == "" {
			continue
		}
		o.w.Emit(trace.M{"e": "Begin", "controller": "state.nodeclaimgc", "object": name})
		errS, panicked := o.guarded(nil, func() error { _, e := o.gc.Reconcile(o.ctx, req(name, "")); return e })
		o.w.Emit(trace.M{"e": "End", "controller": "state.nodeclaimgc", "object": name, "err": short(errS), "panic": panicked,
			"started": false, "cands": []trace.M{}, "repl": []string{}, "outcome": "-"})
	}
	for round := 0; round < 4; round++ {
		before := o.writes
		o.queueRec(OStep{Step: Step{A: "QueueRec"}})
		o.runCleanup(OStep{Step: Step{A: "Cleanup"}})
		if o.writes == before {
			break
		}
	}
}

func (o *osim) ostep(st OStep) error {
	switch st.A {
	case "BuildCmd":
		return o.buildCmd(st)
	case "StartCmd":
		return o.startCmd(st)
	case "QueueRec":
		o.queueRec(st)
	case "Cleanup":
		o.runCleanup(st)
	case "ReplLaunch", "ReplInit", "ReplVanish":
		o.replStep(st)
	case "CandVanish":
		n, err := o.node(st.Node)
		if err != nil {
			return err
		}
		if st.Value != "node" {
			if o.w.EnvRemove(&v1.NodeClaim{ObjectMeta: metav1.ObjectMeta{Name: claimName(n)}}, "CandVanish") {
				if st.Lag {
					o.lagged = append(o.lagged, [2]string{"NodeClaim", claimName(n)})
				} else {
					o.deliver("NodeClaim", claimName(n), "")
				}
			}
		}
		if st.Value != "claim" {
			if o.w.EnvRemove(&corev1.Node{ObjectMeta: metav1.ObjectMeta{Name: n.Name}}, "CandVanish") {
				if st.Lag {
					o.lagged = append(o.lagged, [2]string{"Node", n.Name})
				} else {
					o.deliver("Node", n.Name, "")
				}
			}
		}
	case "Quiescent":
		o.quiescent(st)
		o.snapshotQ()
	case "Restart":
		if err := o.sim.step(st.Step); err != nil {
			return err
		}
		o.lagged = nil // a fresh process lists the API: nothing it knows is stale
		o.fresh()
		o.memEvent()
	case "Round":
		var err error
		o.withPlan(st, func() { err = o.sim.step(Step{A: "Round", During: st.During}) })
		if err != nil {
			return err
		}
		o.discover()
		o.memEvent()
	default:
		return o.sim.step(st.Step)
	}
	return nil
}

func hasCond(c *v1.NodeClaim, t, st string) bool {
	for _, x := range c.Status.Conditions {
		if x.Type == t && (st == "" || string(x.Status) == st) {
			return true
		}
	}
	return false
}

// snapshotQ emits the Quiescent event: per managed node what the API stores and what the code's memory says.
func (o *osim) snapshotQ() {
	var claims v1.NodeClaimList
	var nodes corev1.NodeList
	o.w.List(&claims)
	o.w.List(&nodes)
	nodeByPid := map[string]*corev1.Node{}
	for i := range nodes.Items {
		nodeByPid[nodes.Items[i].Spec.ProviderID] = &nodes.Items[i]
	}
	marked := map[string]bool{}
	for _, n := range o.cluster.DeepCopyNodes() {
		if n.NodeClaim != nil {
			marked[n.NodeClaim.Name] = n.MarkedForDeletion()
		}
	}
	// "counts as schedulable capacity": the existing nodes a real scheduling simulation (SimulateScheduling without
	// candidates = what the provisioner and every disruption method build) works with
	capacity, simOK := map[string]bool{}, false
	func() {
		defer func() { _ = recover() }()
		res, err := kdisruption.SimulateScheduling(o.dctx(), o.w.Client, o.cluster, o.prov, o.w.Clock, o.w.Rec, nil)
		if err != nil {
			return
		}
		simOK = true
		for _, en := range res.ExistingNodes {
			capacity[en.Name()] = true
		}
	}()
	recs := []trace.M{}
	for i := range claims.Items {
		c := &claims.Items[i]
		r := trace.M{"claim": c.Name, "node": "-", "pid": dash(c.Status.ProviderID), "deleting": !c.DeletionTimestamp.IsZero(),
			"reason": hasCond(c, v1.ConditionTypeDisruptionReason, ""), "tainted": false, "nodeDeleting": false,
			"marked": marked[c.Name], "inQueue": c.Status.ProviderID != "" && o.queue.HasAny(c.Status.ProviderID),
			"initialized": hasCond(c, v1.ConditionTypeInitialized, "True"), "capacity": true}
		if n, ok := nodeByPid[c.Status.ProviderID]; ok && c.Status.ProviderID != "" {
			r["node"] = n.Name
			r["capacity"] = !simOK || capacity[n.Name]
			r["nodeDeleting"] = !n.DeletionTimestamp.IsZero()
			for _, t := range n.Spec.Taints {
				if t.MatchTaint(&v1.DisruptedNoScheduleTaint) {
					r["tainted"] = true
				}
			}
		}
		recs = append(recs, r)
	}
	ids := []string{}
	for _, c := range o.queue.GetCommands() {
		ids = append(ids, o.idOf(c))
	}
	sort.Strings(ids)
	o.w.Emit(trace.M{"e": "Quiescent", "nodes": recs, "queue": ids, "synced": o.cluster.Synced(o.ctx), "simulated": simOK})
}

// RunOrchOne executes one orchestration scenario in a fresh world.
func RunOrchOne(sc *OScenario, tw *trace.Writer) (err error) {
	w := world.New()
	s := &sim{sc: &sc.Scenario, w: w}
	s.ctx = s.optionsCtx()
	bm := sc.Options.BatchMaxSec
	if bm == 0 {
		bm = 10
	}
	s.nomWin = max(2*bm, 10)
	o := &osim{sim: s, repl: map[string][]string{}}
	w.LogReads = sc.LogReads
	raw, _ := json.Marshal(sc)
	tags := map[string]any{}
	if sc.Tags != nil {
		tags = normalize(sc.Tags).(map[string]any)
	}
	defer func() {
		delete(bufferCounts, s)
		if r := recover(); r != nil {
			err = fmt.Errorf("scenario %s: panic in driver: %v", sc.Name, r)
		}
	}()
	tw.Begin(trace.M{"module": "Orchestration", "name": sc.Name, "tags": tags, "t0": sc.T0,
		"timeoutSec": int((&kdisruption.Queue{}).GetMaxRetryDuration() / time.Second), "scenarioJson": string(raw)})
	w.Sink = func(m trace.M) {
		if m["e"] == "World" {
			return // whole-store snapshots of the shared builder: the orchestration trace spec folds the store from Api / Env events
		}
		if m["e"] == "Api" && m["err"] == "-" {
			o.writes++
			if m["verb"] == "create" && m["kind"] == "NodeClaim" && m["actor"] == "disruption" {
				o.rmu.Lock()
				if post, ok := m["post"].(trace.M); ok && o.starting != "" {
					o.repl[o.starting] = append(o.repl[o.starting], fmt.Sprint(post["name"]))
				}
				o.rmu.Unlock()
			}
		}
		tw.Emit(m)
	}
	tick := w.Clock.OnTick
	w.Clock.OnTick = func(to time.Time) {
		tick(to)
		s.onTick()
	}
	if err := s.build(); err != nil {
		return err
	}
	o.fresh()
	o.memEvent()
	for _, st := range sc.OSteps {
		if err := o.ostep(st); err != nil {
			return fmt.Errorf("scenario %s: %w", sc.Name, err)
		}
	}
	o.w.Emit(trace.M{"e": "EndTrace"})
	return nil
}

func RunOrch(args []string) error {
	// Karpenter retries failing calls with client-go's retry.DefaultBackoff (4 attempts, 10 ms x5 = 310 ms of real sleep):
	// same number of attempts, shorter real-time sleeps (the virtual clock is not involved) - behaviours with persistently
	// failing calls and crash points replay ten times faster.
	retry.DefaultBackoff.Duration = time.Millisecond
	fs := flag.NewFlagSet("orch", flag.ContinueOnError)
	in := fs.String("in", "", "scenarios JSON (array)")
	out := fs.String("out", "traces", "output directory")
	shards := fs.Int("shards", 4, "trace shards")
	prefix := fs.String("prefix", "orch", "trace file prefix")
	if err := fs.Parse(args); err != nil {
		return err
	}
	raw, err := os.ReadFile(*in)
	if err != nil {
		return err
	}
	var scs []OScenario
	if err := json.Unmarshal(raw, &scs); err != nil {
		return err
	}
	tw, err := trace.NewWriter(*out, *prefix, *shards)
	if err != nil {
		return err
	}
	for i := range scs {
		if err := RunOrchOne(&scs[i], tw); err != nil {
			return fmt.Errorf("scenario %d: %w", i, err)
		}
	}
	paths := tw.Close()
	sum, _ := json.Marshal(trace.M{"traces": tw.N, "lines": tw.Lines, "files": paths})
	fmt.Println(string(sum))
	return nil
}
