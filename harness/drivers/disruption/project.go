package disruption

import (
	"encoding/json"
	"math"
	"sort"
	"strconv"
	"time"

	"github.com/samber/lo"
	corev1 "k8s.io/api/core/v1"
	policyv1 "k8s.io/api/policy/v1"
	"k8s.io/klog/v2"
	"sigs.k8s.io/controller-runtime/pkg/client"

	v1 "sigs.k8s.io/karpenter/pkg/apis/v1"
	"sigs.k8s.io/karpenter/pkg/cloudprovider"
	kdisruption "sigs.k8s.io/karpenter/pkg/controllers/disruption"
	pscheduling "sigs.k8s.io/karpenter/pkg/controllers/provisioning/scheduling"
	"sigs.k8s.io/karpenter/pkg/scheduling"

	"verif/harness/trace"
	"verif/harness/world"
)

// Abstraction of the world for the disruption family.  One `World` event carries every object the
// eligibility / budget / price guards read, as stored in the API at that instant, plus the code's own
// view of its in-memory marks (`mem`, diagnostic only: verdicts use ghost state fed by Env events).

func dash(s string) string {
	if s == "" {
		return "-"
	}
	return s
}

func price5(p float64) int {
	if math.IsNaN(p) || math.IsInf(p, 0) || p > 20000 {
		return -1
	}
	return int(math.Round(p * 100000))
}

func condOf(conds []condLike, t string) (string, int) {
	for _, c := range conds {
		if c.Type == t {
			return c.Status, c.Since
		}
	}
	return "Absent", -1
}

type condLike struct {
	Type, Status string
	Since        int
}

func claimConds(nc *v1.NodeClaim) []condLike {
	var out []condLike
	for _, c := range nc.Status.Conditions {
		out = append(out, condLike{c.Type, string(c.Status), world.Sec(c.LastTransitionTime.Time)})
	}
	return out
}

func secOf(d *time.Duration) int {
	if d == nil {
		return -1
	}
	return int(*d / time.Second)
}

func strs(m map[string]string) map[string]string {
	if m == nil {
		return map[string]string{}
	}
	return m
}

// dndParse classifies a do-not-disrupt annotation value: none | true | dur | invalid (seconds for dur).
func dndParse(ann map[string]string) (string, int, string) {
	v, ok := ann[v1.DoNotDisruptAnnotationKey]
	if !ok {
		return "none", -1, "-"
	}
	if v == "true" {
		return "true", -1, v
	}
	d, err := time.ParseDuration(v)
	if err != nil || d <= 0 {
		return "invalid", -1, dash(v)
	}
	// the model works in whole seconds; scenarios only use whole-second durations
	return "dur", int(d / time.Second), v
}

func absPool(np *v1.NodePool) trace.M {
	budgets := []trace.M{}
	for _, b := range np.Spec.Disruption.Budgets {
		rs := []string{}
		for _, r := range b.Reasons {
			rs = append(rs, string(r))
		}
		dur := -1
		if b.Duration != nil {
			dur = int(b.Duration.Duration / time.Second)
		}
		budgets = append(budgets, trace.M{"nodes": b.Nodes, "reasons": rs, "reasonsNil": b.Reasons == nil,
			"schedule": dash(lo.FromPtr(b.Schedule)), "durationSec": dur})
	}
	ready := "Absent"
	for _, c := range np.Status.Conditions {
		if c.Type == "Ready" {
			ready = string(c.Status)
		}
	}
	nodeLimit := -1
	if q, ok := np.Spec.Limits[corev1.ResourceName("nodes")]; ok {
		nodeLimit = int(q.Value())
	}
	tgp := -1
	if np.Spec.Template.Spec.TerminationGracePeriod != nil {
		tgp = int(np.Spec.Template.Spec.TerminationGracePeriod.Duration / time.Second)
	}
	return trace.M{"kind": "NodePool", "exists": true, "name": np.Name, "static": np.Spec.Replicas != nil,
		"replicas": int(lo.FromPtrOr(np.Spec.Replicas, -1)), "policy": string(np.Spec.Disruption.ConsolidationPolicy),
		"consolidateAfter": secOf(np.Spec.Disruption.ConsolidateAfter.Duration), "budgets": budgets,
		"deleting": !np.DeletionTimestamp.IsZero(), "ready": ready, "weight": int(lo.FromPtrOr(np.Spec.Weight, 0)),
		"nodeLimit": nodeLimit, "tgp": tgp, "hash": np.Hash()}
}

func absClaim(nc *v1.NodeClaim) trace.M {
	cs := claimConds(nc)
	m := trace.M{"kind": "NodeClaim", "exists": true, "name": nc.Name, "pool": dash(nc.Labels[v1.NodePoolLabelKey]),
		"providerID": dash(nc.Status.ProviderID), "nodeName": dash(nc.Status.NodeName),
		"deleting": !nc.DeletionTimestamp.IsZero(), "created": world.Sec(nc.CreationTimestamp.Time),
		"tgp": -1, "expireAfter": secOf(nc.Spec.ExpireAfter.Duration),
		"type": dash(nc.Labels[corev1.LabelInstanceTypeStable]), "zone": dash(nc.Labels[corev1.LabelTopologyZone]),
		"ct": dash(nc.Labels[v1.CapacityTypeLabelKey]),
		"lastPodEvent": world.Sec(nc.Status.LastPodEventTime.Time),
		"hash": dash(nc.Annotations[v1.NodePoolHashAnnotationKey])}
	if nc.Status.LastPodEventTime.IsZero() {
		m["lastPodEvent"] = -1
	}
	if nc.Spec.TerminationGracePeriod != nil {
		m["tgp"] = int(nc.Spec.TerminationGracePeriod.Duration / time.Second)
	}
	k, _, raw := dndParse(nc.Annotations)
	m["dndKind"], m["dndRaw"] = k, raw
	for _, t := range []string{v1.ConditionTypeLaunched, v1.ConditionTypeRegistered, v1.ConditionTypeInitialized, v1.ConditionTypeDrifted,
		v1.ConditionTypeConsolidatable, v1.ConditionTypeInstanceTerminating, v1.ConditionTypeDisruptionReason} {
		st, since := condOf(cs, t)
		key := string(t[0]|0x20) + t[1:]
		m[key] = st
		m[key+"At"] = since
	}
	reason := "-"
	for _, c := range nc.Status.Conditions {
		if c.Type == v1.ConditionTypeDisruptionReason {
			reason = dash(c.Reason)
		}
	}
	m["reason"] = reason
	return m
}

func absNode(n *corev1.Node) trace.M {
	ready := false
	for _, c := range n.Status.Conditions {
		if c.Type == corev1.NodeReady && c.Status == corev1.ConditionTrue {
			ready = true
		}
	}
	tainted := false
	for _, t := range n.Spec.Taints {
		if t.MatchTaint(&v1.DisruptedNoScheduleTaint) {
			tainted = true
		}
	}
	k, _, raw := dndParse(n.Annotations)
	return trace.M{"kind": "Node", "exists": true, "name": n.Name, "providerID": dash(n.Spec.ProviderID),
		"pool": dash(n.Labels[v1.NodePoolLabelKey]), "registered": n.Labels[v1.NodeRegisteredLabelKey] == "true",
		"initialized": n.Labels[v1.NodeInitializedLabelKey] == "true", "deleting": !n.DeletionTimestamp.IsZero(),
		"dndKind": k, "dndRaw": raw, "disruptedTaint": tainted, "ready": ready, "unschedulable": n.Spec.Unschedulable,
		"type": dash(n.Labels[corev1.LabelInstanceTypeStable]), "zone": dash(n.Labels[corev1.LabelTopologyZone]),
		"ct": dash(n.Labels[v1.CapacityTypeLabelKey]), "cpu": int(n.Status.Allocatable.Cpu().MilliValue()),
		"memMi": int(n.Status.Allocatable.Memory().Value() >> 20)}
}

func podKey(p *corev1.Pod) string { return p.Namespace + "/" + p.Name }

func absPod(p *corev1.Pod) trace.M {
	owner := "none"
	for _, r := range p.OwnerReferences {
		switch {
		case r.Kind == "DaemonSet" && r.APIVersion == "apps/v1":
			owner = "daemonset"
		case r.Kind == "Node" && r.APIVersion == "v1":
			owner = "node"
		case r.Kind == "StatefulSet" && r.APIVersion == "apps/v1":
			owner = "statefulset"
		case r.Kind == "ReplicaSet":
			owner = "replicaset"
		default:
			owner = "other"
		}
	}
	tol := false
	for _, t := range p.Spec.Tolerations {
		if t.ToleratesTaint(klog.Background(), &v1.DisruptedNoScheduleTaint, false) {
			tol = true
		}
	}
	k, sec, raw := dndParse(p.Annotations)
	started := -1
	if p.Status.StartTime != nil {
		started = world.Sec(p.Status.StartTime.Time)
	}
	readyFalse := false
	for _, c := range p.Status.Conditions {
		if c.Type == corev1.PodReady && c.Status == corev1.ConditionFalse {
			readyFalse = true
		}
	}
	cpu, mem := 0, 0
	for _, c := range p.Spec.Containers {
		cpu += int(c.Resources.Requests.Cpu().MilliValue())
		mem += int(c.Resources.Requests.Memory().Value() >> 20)
	}
	dc, hasDc := 0, false
	if v, ok := p.Annotations[corev1.PodDeletionCost]; ok {
		if f, err := strconv.ParseFloat(v, 64); err == nil {
			hasDc = true
			dc = int(math.Max(math.Min(f, 2147483647), -2147483647))
		}
	}
	prio, hasPrio := 0, false
	if p.Spec.Priority != nil {
		prio, hasPrio = int(*p.Spec.Priority), true
	}
	delAt := -1
	if p.DeletionTimestamp != nil {
		delAt = world.Sec(p.DeletionTimestamp.Time)
	}
	return trace.M{"kind": "Pod", "exists": true, "key": podKey(p), "name": p.Name, "ns": p.Namespace, "uid": string(p.UID),
		"node": dash(p.Spec.NodeName), "phase": string(p.Status.Phase), "terminating": p.DeletionTimestamp != nil, "deletedAt": delAt,
		"owner": owner, "dndKind": k, "dndSec": sec, "dndRaw": raw, "started": started, "toleratesDisruption": tol,
		"labels": strs(p.Labels), "deletionCost": dc, "hasDeletionCost": hasDc, "priority": prio, "hasPriority": hasPrio,
		"readyFalse": readyFalse, "cpu": cpu, "memMi": mem,
		"unschedulable": p.Spec.NodeName == "" && lo.ContainsBy(p.Status.Conditions, func(c corev1.PodCondition) bool {
			return c.Type == corev1.PodScheduled && c.Reason == corev1.PodReasonUnschedulable
		})}
}

func absPDB(p *policyv1.PodDisruptionBudget) trace.M {
	sel := map[string]string{}
	exprs := 0
	if p.Spec.Selector != nil {
		sel = strs(p.Spec.Selector.MatchLabels)
		exprs = len(p.Spec.Selector.MatchExpressions)
	}
	ios := func(x interface{ String() string }, isNil bool) string {
		if isNil {
			return "-"
		}
		return x.String()
	}
	return trace.M{"kind": "PodDisruptionBudget", "exists": true, "name": p.Name, "ns": p.Namespace, "selNil": p.Spec.Selector == nil,
		"sel": sel, "selExprs": exprs, "allowed": int(p.Status.DisruptionsAllowed),
		"maxUnavailable": ios(p.Spec.MaxUnavailable, p.Spec.MaxUnavailable == nil),
		"minAvailable":   ios(p.Spec.MinAvailable, p.Spec.MinAvailable == nil),
		"alwaysAllow":    p.Spec.UnhealthyPodEvictionPolicy != nil && *p.Spec.UnhealthyPodEvictionPolicy == policyv1.AlwaysAllow}
}

func (s *sim) emitObj(o client.Object) {
	var m trace.M
	switch x := o.(type) {
	case *v1.NodePool:
		m = absPool(x)
	case *policyv1.PodDisruptionBudget:
		m = absPDB(x)
	default:
		return
	}
	s.w.Emit(trace.M{"e": "Obj", "kind": m["kind"], "name": m["name"], "post": m})
}

// snapshot emits the World event: every object of the API store in abstract form + the code's memory view.
func (s *sim) snapshot(why string) {
	w := s.w
	var pools v1.NodePoolList
	var claims v1.NodeClaimList
	var nodes corev1.NodeList
	var pods corev1.PodList
	var pdbs policyv1.PodDisruptionBudgetList
	w.List(&pools)
	w.List(&claims)
	w.List(&nodes)
	w.List(&pods)
	w.List(&pdbs)
	ev := trace.M{"e": "World", "why": why}
	ev["pools"] = lo.Map(pools.Items, func(x v1.NodePool, _ int) trace.M { return absPool(&x) })
	ev["claims"] = lo.Map(claims.Items, func(x v1.NodeClaim, _ int) trace.M { return absClaim(&x) })
	ev["nodes"] = lo.Map(nodes.Items, func(x corev1.Node, _ int) trace.M { return absNode(&x) })
	ev["pods"] = lo.Map(pods.Items, func(x corev1.Pod, _ int) trace.M { return absPod(&x) })
	ev["pdbs"] = lo.Map(pdbs.Items, func(x policyv1.PodDisruptionBudget, _ int) trace.M { return absPDB(&x) })
	mem := []trace.M{}
	for _, n := range s.cluster.DeepCopyNodes() {
		node, claim := "-", "-"
		if n.Node != nil {
			node = n.Node.Name
		}
		if n.NodeClaim != nil {
			claim = n.NodeClaim.Name
		}
		mem = append(mem, trace.M{"pid": dash(n.ProviderID()), "node": node, "claim": claim, "marked": n.MarkedForDeletion(),
			"nominated": n.Nominated(w.Clock), "initialized": n.Initialized(), "managed": n.Managed(),
			"buffer": s.cluster.BufferPodCount(n.ProviderID()), "inQueue": s.queue.HasAny(n.ProviderID())})
	}
	sort.Slice(mem, func(i, j int) bool { return mem[i]["pid"].(string) < mem[j]["pid"].(string) })
	ev["mem"] = mem
	ev["synced"] = s.cluster.Synced(s.ctx)
	w.Emit(ev)
}

func (s *sim) universe() map[string][]string {
	u := map[string]map[string]bool{corev1.LabelTopologyZone: {}, v1.CapacityTypeLabelKey: {}, corev1.LabelInstanceTypeStable: {}}
	for _, it := range s.w.Prov.Types {
		u[corev1.LabelInstanceTypeStable][it.Name] = true
		for _, o := range it.Offerings {
			u[corev1.LabelTopologyZone][o.Zone()] = true
			u[v1.CapacityTypeLabelKey][o.CapacityType()] = true
		}
	}
	out := map[string][]string{}
	for k, vs := range u {
		l := lo.Keys(vs)
		sort.Strings(l)
		out[k] = l
	}
	return out
}

func absReqs(reqs scheduling.Requirements, uni map[string][]string) []trace.M {
	out := []trace.M{}
	keys := lo.Keys(reqs)
	sort.Strings(keys)
	for _, k := range keys {
		r := reqs[k]
		vals := append([]string{}, r.Values()...)
		sort.Strings(vals)
		has := map[string]bool{}
		for _, v := range uni[k] {
			has[v] = r.Has(v)
		}
		mv := -1
		if r.MinValues != nil {
			mv = *r.MinValues
		}
		out = append(out, trace.M{"key": k, "op": string(r.Operator()), "values": vals, "has": has, "minValues": mv})
	}
	return out
}

func absOfferings(it *cloudprovider.InstanceType, reqs scheduling.Requirements) []trace.M {
	out := []trace.M{}
	for _, o := range it.Offerings {
		out = append(out, trace.M{"zone": o.Zone(), "ct": o.CapacityType(), "price": price5(o.Price), "available": o.Available,
			"compatible": reqs == nil || reqs.IsCompatible(o.Requirements, scheduling.AllowUndefinedWellKnownLabels)})
	}
	return out
}

func podKeys(pods []*corev1.Pod) []string {
	out := []string{}
	for _, p := range pods {
		out = append(out, podKey(p))
	}
	sort.Strings(out)
	return out
}

func (s *sim) absReplacement(nc *pscheduling.NodeClaim, name string) trace.M {
	uni := s.universe()
	its := []trace.M{}
	for _, it := range nc.InstanceTypeOptions {
		its = append(its, trace.M{"name": it.Name, "cpu": int(it.Capacity.Cpu().MilliValue()), "memMi": int(it.Capacity.Memory().Value() >> 20),
			"offerings": absOfferings(it, nc.Requirements)})
	}
	return trace.M{"name": dash(name), "pool": dash(nc.NodePoolName), "static": nc.IsStaticNodeClaim, "reqs": absReqs(nc.Requirements, uni),
		"its": its, "pods": podKeys(nc.Pods), "cpu": int(nc.Spec.Resources.Requests.Cpu().MilliValue()),
		"memMi": int(nc.Spec.Resources.Requests.Memory().Value() >> 20)}
}

func methodName(m kdisruption.Method) string {
	switch m.(type) {
	case *kdisruption.Emptiness:
		return "emptiness"
	case *kdisruption.StaticDrift:
		return "staticdrift"
	case *kdisruption.Drift:
		return "drift"
	case *kdisruption.MultiNodeConsolidation:
		return "multi"
	case *kdisruption.SingleNodeConsolidation:
		return "single"
	}
	return "unknown"
}

func (s *sim) absCandidate(c *kdisruption.Candidate) trace.M {
	node, claim, pool := "-", "-", "-"
	if c.Node != nil {
		node = c.Node.Name
	}
	if c.NodeClaim != nil {
		claim = c.NodeClaim.Name
	}
	if c.NodePool != nil {
		pool = c.NodePool.Name
	}
	l := c.Labels()
	return trace.M{"node": node, "claim": claim, "pool": pool, "pid": dash(c.ProviderID()),
		"type": dash(l[corev1.LabelInstanceTypeStable]), "zone": dash(l[corev1.LabelTopologyZone]), "ct": dash(l[v1.CapacityTypeLabelKey]),
		"price": price5(c.Price), "rescheduleCostMilli": int(math.Round(c.RescheduleDisruptionCost * 1000)),
		"disruptionCostMilli": int(math.Round(math.Max(math.Min(c.DisruptionCost, 1e6), -1e6) * 1000))}
}

// absCommand projects a disruption.Command.
func (s *sim) absCommand(mode, method string, cmd *kdisruption.Command) trace.M {
	s.cmdSeq++
	cands := []trace.M{}
	names := []string{}
	for _, c := range cmd.Candidates {
		cands = append(cands, s.absCandidate(c))
		names = append(names, c.Name())
	}
	repl := []trace.M{}
	for _, r := range cmd.Replacements {
		repl = append(repl, s.absReplacement(r.NodeClaim, r.Name))
	}
	existing := []trace.M{}
	for _, en := range cmd.Results.ExistingNodes {
		if len(en.Pods) == 0 {
			continue
		}
		existing = append(existing, trace.M{"node": en.Name(), "pods": podKeys(en.Pods), "initialized": en.Initialized()})
	}
	perrs := []trace.M{}
	for p, e := range cmd.Results.PodErrors {
		perrs = append(perrs, trace.M{"pod": podKey(p), "err": e.Error()})
	}
	sort.Slice(perrs, func(i, j int) bool { return perrs[i]["pod"].(string) < perrs[j]["pod"].(string) })
	reason := "-"
	if cmd.Method != nil {
		reason = string(cmd.Reason())
	}
	return trace.M{"e": "Cmd", "id": s.cmdSeq, "mode": mode, "method": method, "reason": reason, "decision": string(cmd.Decision()),
		"names": names, "candidates": cands, "replacements": repl, "existing": existing, "podErrors": perrs}
}

// normalize makes a value safe for TLC's Json module (no null).
func normalize(v any) any {
	b, _ := json.Marshal(v)
	var x any
	_ = json.Unmarshal(b, &x)
	return denull(x)
}

func denull(x any) any {
	switch t := x.(type) {
	case nil:
		return "-"
	case map[string]any:
		for k, v := range t {
			t[k] = denull(v)
		}
		return t
	case []any:
		for i, v := range t {
			t[i] = denull(v)
		}
		return t
	}
	return x
}
