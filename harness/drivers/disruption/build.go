package disruption

import (
	"context"
	"fmt"
	"sort"
	"strconv"
	"time"

	"github.com/awslabs/operatorpkg/status"
	"github.com/samber/lo"
	corev1 "k8s.io/api/core/v1"
	policyv1 "k8s.io/api/policy/v1"
	"k8s.io/apimachinery/pkg/api/resource"
	metav1 "k8s.io/apimachinery/pkg/apis/meta/v1"
	"k8s.io/apimachinery/pkg/types"
	"k8s.io/apimachinery/pkg/util/intstr"
	"sigs.k8s.io/controller-runtime/pkg/client"
	"sigs.k8s.io/controller-runtime/pkg/reconcile"

	v1 "sigs.k8s.io/karpenter/pkg/apis/v1"
	"sigs.k8s.io/karpenter/pkg/cloudprovider"
	kdisruption "sigs.k8s.io/karpenter/pkg/controllers/disruption"
	ncdisruption "sigs.k8s.io/karpenter/pkg/controllers/nodeclaim/disruption"
	"sigs.k8s.io/karpenter/pkg/controllers/nodeclaim/podevents"
	"sigs.k8s.io/karpenter/pkg/controllers/provisioning"
	"sigs.k8s.io/karpenter/pkg/controllers/state"
	"sigs.k8s.io/karpenter/pkg/controllers/state/informer"
	"sigs.k8s.io/karpenter/pkg/operator/options"
	"sigs.k8s.io/karpenter/pkg/state/cost"
	"sigs.k8s.io/karpenter/pkg/state/virtualpods"

	"verif/harness/drivers/sched"
	"verif/harness/trace"
	"verif/harness/world"
)

// sim is one scenario being executed.
type sim struct {
	sc  *Scenario
	w   *world.World
	ctx context.Context

	cluster *state.Cluster
	cost    *cost.ClusterCost
	prov    *provisioning.Provisioner
	queue   *kdisruption.Queue
	ctrl    *kdisruption.Controller

	infNode  *informer.NodeController
	infClaim *informer.NodeClaimController
	infPod   *informer.PodController
	infPool  *informer.NodePoolController
	ncd      *ncdisruption.Controller
	podev    *podevents.Controller

	infDS  *informer.DaemonSetController
	dsRefs map[string]metav1.OwnerReference

	pools   map[string]*v1.NodePool
	types   map[string]*cloudprovider.InstanceType
	nodeBy  map[string]*NodeSpec
	during  []Step // pending mid-call environment steps
	inCall  bool
	nomWin  int
	cmdSeq  int
}

func at(sec int) time.Time { return world.Epoch.Add(time.Duration(sec) * time.Second) }

func mtime(sec int) metav1.Time { return metav1.NewTime(at(sec)) }

func claimName(n *NodeSpec) string { return "nc-" + n.Name }
func pidOf(n *NodeSpec) string {
	if !n.Managed {
		return "verif://unmanaged/" + n.Name
	}
	return "verif://" + claimName(n)
}

func (s *sim) catalog() []*cloudprovider.InstanceType {
	if len(s.sc.Catalog) == 0 {
		return world.DefaultCatalog()
	}
	var out []*cloudprovider.InstanceType
	for _, t := range s.sc.Catalog {
		ts := world.TypeSpec{Name: t.Name, CPU: t.CPU, MemMi: t.MemMi}
		for _, o := range t.Offerings {
			ts.Offerings = append(ts.Offerings, world.OfferingSpec{Zone: o.Zone, CapacityType: o.CT, Price: o.Price, Available: o.Available,
				ReservationID: o.Rid, ReservationCap: o.Rcap})
		}
		out = append(out, world.MakeType(ts))
	}
	return out
}

func (s *sim) mkPool(p *PoolSpec) *v1.NodePool {
	np := world.NodePool(p.Name)
	switch p.Policy {
	case "", "WhenEmptyOrUnderutilized":
		np.Spec.Disruption.ConsolidationPolicy = v1.ConsolidationPolicyWhenEmptyOrUnderutilized
	default:
		np.Spec.Disruption.ConsolidationPolicy = v1.ConsolidationPolicy(p.Policy)
	}
	if p.ConsolidateAfter < 0 {
		np.Spec.Disruption.ConsolidateAfter = v1.MustParseNillableDuration("Never")
	} else {
		np.Spec.Disruption.ConsolidateAfter = v1.MustParseNillableDuration(fmt.Sprintf("%ds", p.ConsolidateAfter))
	}
	if len(p.Budgets) > 0 {
		np.Spec.Disruption.Budgets = nil
		for _, b := range p.Budgets {
			bb := v1.Budget{Nodes: b.Nodes}
			for _, r := range b.Reasons {
				bb.Reasons = append(bb.Reasons, v1.DisruptionReason(r))
			}
			if b.Schedule != "" {
				bb.Schedule = lo.ToPtr(b.Schedule)
				bb.Duration = &metav1.Duration{Duration: time.Duration(b.DurationSec) * time.Second}
			}
			np.Spec.Disruption.Budgets = append(np.Spec.Disruption.Budgets, bb)
		}
	}
	if p.Static {
		np.Spec.Replicas = lo.ToPtr(int64(p.Replicas))
	}
	if p.TGP >= 0 {
		np.Spec.Template.Spec.TerminationGracePeriod = &metav1.Duration{Duration: time.Duration(p.TGP) * time.Second}
	}
	if p.Weight > 0 {
		np.Spec.Weight = lo.ToPtr(int32(p.Weight))
	}
	if p.NodeLimit > 0 {
		np.Spec.Limits = v1.Limits{corev1.ResourceName("nodes"): resource.MustParse(strconv.Itoa(p.NodeLimit))}
	}
	for _, r := range p.Requirements {
		req := v1.NodeSelectorRequirementWithMinValues{Key: r.Key, Operator: corev1.NodeSelectorOperator(r.Op), Values: r.Values}
		if r.MinVals > 0 {
			req.MinValues = lo.ToPtr(r.MinVals)
		}
		np.Spec.Template.Spec.Requirements = append(np.Spec.Template.Spec.Requirements, req)
	}
	s.frameDecoratePool(np, p) // C18: PoolSpec.Ext
	np.Annotations = map[string]string{v1.NodePoolHashAnnotationKey: np.Hash(), v1.NodePoolHashVersionAnnotationKey: v1.NodePoolHashVersion}
	return np
}

func (s *sim) poolStatus(np *v1.NodePool, notReady bool) {
	cs := np.StatusConditions(status.WithClock(s.w.Clock))
	cs.SetTrue(v1.ConditionTypeValidationSucceeded)
	if notReady {
		cs.SetFalse(v1.ConditionTypeNodeClassReady, "NotReady", "scenario")
	} else {
		cs.SetTrue(v1.ConditionTypeNodeClassReady)
	}
	cs.SetTrue(v1.ConditionTypeNodeRegistrationHealthy)
}

func (s *sim) nodeLabels(n *NodeSpec) map[string]string {
	l := map[string]string{
		corev1.LabelInstanceTypeStable: n.Type,
		corev1.LabelTopologyZone:       n.Zone,
		v1.CapacityTypeLabelKey:        n.CT,
		corev1.LabelArchStable:         "amd64",
		corev1.LabelOSStable:           "linux",
	}
	if n.Pool != "" && !n.NoPoolLabel {
		l[v1.NodePoolLabelKey] = n.Pool
	}
	return l
}

// mkClaim builds the NodeClaim (metadata+spec) and returns a function applying its status.
func (s *sim) mkClaim(n *NodeSpec) (*v1.NodeClaim, func(*v1.NodeClaim)) {
	pool := s.pools[n.Pool]
	nc := world.NodeClaim(claimName(n), nil)
	nc.Labels = s.nodeLabels(n)
	nc.CreationTimestamp = mtime(n.CreatedAt)
	if pool != nil {
		nc.OwnerReferences = []metav1.OwnerReference{{APIVersion: "karpenter.sh/v1", Kind: "NodePool", Name: pool.Name, UID: pool.UID,
			BlockOwnerDeletion: lo.ToPtr(true)}}
		nc.Annotations[v1.NodePoolHashAnnotationKey] = pool.Hash()
		nc.Annotations[v1.NodePoolHashVersionAnnotationKey] = v1.NodePoolHashVersion
		if n.Drifted {
			nc.Annotations[v1.NodePoolHashAnnotationKey] = "stale-" + pool.Hash()
		}
	}
	if n.ClaimDnd != "" {
		nc.Annotations[v1.DoNotDisruptAnnotationKey] = n.ClaimDnd
	}
	nc.Finalizers = []string{v1.TerminationFinalizer}
	if n.TGP >= 0 {
		nc.Spec.TerminationGracePeriod = &metav1.Duration{Duration: time.Duration(n.TGP) * time.Second}
	}
	if n.ExpireAfter > 0 {
		nc.Spec.ExpireAfter = v1.MustParseNillableDuration(fmt.Sprintf("%ds", n.ExpireAfter))
	}
	it := s.types[n.Type]
	st := func(c *v1.NodeClaim) {
		c.Status.ProviderID = pidOf(n)
		if it != nil {
			c.Status.Capacity = it.Capacity.DeepCopy()
			c.Status.Allocatable = it.Allocatable().DeepCopy()
		}
		setCond := func(t string, sec int) {
			c.Status.Conditions = append(c.Status.Conditions, status.Condition{Type: t, Status: metav1.ConditionTrue, Reason: t, Message: "",
				LastTransitionTime: mtime(sec)})
		}
		unknown := func(t string) {
			c.Status.Conditions = append(c.Status.Conditions, status.Condition{Type: t, Status: metav1.ConditionUnknown, Reason: "AwaitingReconciliation",
				Message: "object is awaiting reconciliation", LastTransitionTime: mtime(n.CreatedAt)})
		}
		c.Status.Conditions = nil
		setCond(v1.ConditionTypeLaunched, n.CreatedAt)
		switch n.Stage {
		case "launched":
			unknown(v1.ConditionTypeRegistered)
			unknown(v1.ConditionTypeInitialized)
			unknown(status.ConditionReady)
		case "registered":
			c.Status.NodeName = n.Name
			setCond(v1.ConditionTypeRegistered, n.CreatedAt)
			unknown(v1.ConditionTypeInitialized)
			unknown(status.ConditionReady)
		default:
			c.Status.NodeName = n.Name
			setCond(v1.ConditionTypeRegistered, n.CreatedAt)
			setCond(v1.ConditionTypeInitialized, n.InitializedAt)
			setCond(status.ConditionReady, n.InitializedAt)
		}
		if n.InstanceTerminating {
			setCond(v1.ConditionTypeInstanceTerminating, s.sc.T0-1)
		}
	}
	return nc, st
}

func (s *sim) mkNode(n *NodeSpec) *corev1.Node {
	it := s.types[n.Type]
	node := &corev1.Node{
		ObjectMeta: metav1.ObjectMeta{Name: n.Name, Labels: s.nodeLabels(n), Annotations: map[string]string{},
			CreationTimestamp: mtime(n.CreatedAt)},
		Spec: corev1.NodeSpec{ProviderID: pidOf(n)},
	}
	node.Labels[corev1.LabelHostname] = n.Name
	if it != nil {
		node.Status.Capacity = it.Capacity.DeepCopy()
		node.Status.Allocatable = it.Allocatable().DeepCopy()
	}
	if n.Managed {
		node.Finalizers = []string{v1.TerminationFinalizer}
		node.Labels[v1.NodeRegisteredLabelKey] = "true"
		if n.Stage == "initialized" {
			node.Labels[v1.NodeInitializedLabelKey] = "true"
		} else {
			node.Spec.Taints = append(node.Spec.Taints, corev1.Taint{Key: "node.kubernetes.io/not-ready", Effect: corev1.TaintEffectNoSchedule})
		}
	}
	if n.NodeDnd != "" {
		node.Annotations[v1.DoNotDisruptAnnotationKey] = n.NodeDnd
	}
	if n.Tainted {
		node.Spec.Taints = append(node.Spec.Taints, v1.DisruptedNoScheduleTaint)
	}
	for _, t := range n.Taints {
		node.Spec.Taints = append(node.Spec.Taints, corev1.Taint{Key: t.Key, Value: t.Value, Effect: corev1.TaintEffect(t.Effect)})
	}
	world.SetNodeReady(node, !n.NotReady && (n.Stage == "initialized" || !n.Managed), at(n.CreatedAt))
	for _, k := range n.DropLabels { // C18
		delete(node.Labels, frameLabelKey(k))
	}
	return node
}

func (s *sim) mkPod(p *PodSpec) *corev1.Pod {
	ann := map[string]string{}
	if p.Dnd != "" {
		ann[v1.DoNotDisruptAnnotationKey] = p.Dnd
	}
	if p.DeletionCost != "" {
		ann[corev1.PodDeletionCost] = p.DeletionCost
	}
	o := world.PodOpts{Name: p.Name, Namespace: p.Namespace, Node: p.Node, CPU: p.CPU, MemMi: p.MemMi, Labels: p.Labels,
		Annotations: ann, Owner: p.Owner, Phase: corev1.PodPhase(p.Phase), TGPS: -1}
	if p.ToleratesDisruption {
		o.Tolerations = []corev1.Toleration{{Key: v1.DisruptedTaintKey, Operator: corev1.TolerationOpExists}}
	}
	for _, t := range p.Tol {
		o.Tolerations = append(o.Tolerations, corev1.Toleration{Key: t.Key, Operator: corev1.TolerationOperator(t.Op), Value: t.Value,
			Effect: corev1.TaintEffect(t.Effect)})
	}
	pod := world.Pod(o)
	if ref, ok := s.dsRefs[p.DS]; ok && p.DS != "" {
		pod.OwnerReferences = []metav1.OwnerReference{ref}
	}
	if len(p.Sel) > 0 {
		pod.Spec.NodeSelector = map[string]string{}
		for k, v := range p.Sel {
			pod.Spec.NodeSelector[sched.Key(k)] = v
		}
	}
	if p.HasPriority {
		pod.Spec.Priority = lo.ToPtr(int32(p.Priority))
	}
	if p.Node == "" {
		pod.Status.Phase = corev1.PodPending
		pod.Status.Conditions = append(pod.Status.Conditions, corev1.PodCondition{Type: corev1.PodScheduled, Status: corev1.ConditionFalse,
			Reason: corev1.PodReasonUnschedulable})
	}
	if p.StartedAt >= 0 {
		t := mtime(p.StartedAt)
		pod.Status.StartTime = &t
	}
	if p.ReadyFalse {
		pod.Status.Conditions = append(pod.Status.Conditions, corev1.PodCondition{Type: corev1.PodReady, Status: corev1.ConditionFalse})
	} else if p.Node != "" {
		pod.Status.Conditions = append(pod.Status.Conditions, corev1.PodCondition{Type: corev1.PodReady, Status: corev1.ConditionTrue})
	}
	s.frameDecoratePod(pod, p) // C18: PodSpec.Ext
	return pod
}

func ios(s string) *intstr.IntOrString {
	if s == "" {
		return nil
	}
	if i, err := strconv.Atoi(s); err == nil {
		return lo.ToPtr(intstr.FromInt32(int32(i)))
	}
	return lo.ToPtr(intstr.FromString(s))
}

func (s *sim) mkPDB(p *PDBSpec) *policyv1.PodDisruptionBudget {
	ns := p.Namespace
	if ns == "" {
		ns = "default"
	}
	pdb := &policyv1.PodDisruptionBudget{ObjectMeta: metav1.ObjectMeta{Name: p.Name, Namespace: ns}}
	if !p.NilSel {
		pdb.Spec.Selector = &metav1.LabelSelector{MatchLabels: p.Selector}
	}
	pdb.Spec.MaxUnavailable = ios(p.MaxUnavailable)
	pdb.Spec.MinAvailable = ios(p.MinAvailable)
	if p.AlwaysAllow {
		pdb.Spec.UnhealthyPodEvictionPolicy = lo.ToPtr(policyv1.AlwaysAllow)
	}
	pdb.Status.DisruptionsAllowed = int32(p.Allowed)
	return pdb
}

func req(name, ns string) reconcile.Request {
	return reconcile.Request{NamespacedName: types.NamespacedName{Name: name, Namespace: ns}}
}

// restart builds fresh in-memory components (cluster state, provisioner, queue, controllers).
func (s *sim) restart() {
	w := s.w
	cp := s.frameNewProvider() // C18: the harness provider, or (options.nodeOverlay) decorated with a fresh overlay store (x_frame.go)
	s.cluster = state.NewCluster(w.Clock, w.Client, cp)
	s.cost = cost.NewClusterCost(s.ctx, cp, w.Client)
	s.prov = provisioning.NewProvisioner(w.Client, w.Rec, cp, s.cluster, w.Clock, nil, virtualpods.NewVirtualPodCache(w.Client))
	s.frameOverlayController() // C18: the nodeoverlay controller (undecorated provider), no-op without the feature gate
	s.queue = kdisruption.NewQueue(w.Client, w.Rec, s.cluster, w.Clock, s.prov)
	s.ctrl = kdisruption.NewController(w.Clock, w.Client, s.prov, cp, w.Rec, s.cluster, s.queue, s.cost)
	s.infNode = informer.NewNodeController(w.Client, s.cluster)
	s.infClaim = informer.NewNodeClaimController(w.Client, cp, s.cluster, s.cost)
	s.infPod = informer.NewPodController(w.Client, s.cluster)
	s.infPool = informer.NewNodePoolController(w.Client, cp, s.cluster, s.cost)
	s.infDS = informer.NewDaemonSetController(w.Client, s.cluster)
	s.ncd = ncdisruption.NewController(w.Clock, w.Client, cp)
	s.podev = podevents.NewController(w.Clock, w.Client, cp)
}

// deliver runs the informer reconcile of one object (the watch event the real operator would get).
func (s *sim) deliver(kind, name, ns string) {
	var err error
	switch kind {
	case "Node":
		_, err = s.infNode.Reconcile(s.ctx, req(name, ""))
	case "NodeClaim":
		_, err = s.infClaim.Reconcile(s.ctx, req(name, ""))
	case "Pod":
		_, err = s.infPod.Reconcile(s.ctx, req(name, ns))
	case "NodePool":
		_, err = s.infPool.Reconcile(s.ctx, req(name, ""))
	}
	if err != nil {
		s.w.Emit(trace.M{"e": "Note", "what": "informer-error", "kind": kind, "name": name, "msg": err.Error()})
	}
}

// hydrate delivers every stored Node/NodeClaim/Pod/NodePool to the informer controllers.
func (s *sim) hydrate() {
	s.frameReconcileOverlays() // C18: the instance type store must know the pools before anything resolves instance types
	var pools v1.NodePoolList
	s.w.List(&pools)
	for i := range pools.Items {
		s.deliver("NodePool", pools.Items[i].Name, "")
	}
	var claims v1.NodeClaimList
	s.w.List(&claims)
	for i := range claims.Items {
		s.deliver("NodeClaim", claims.Items[i].Name, "")
	}
	var nodes corev1.NodeList
	s.w.List(&nodes)
	for i := range nodes.Items {
		s.deliver("Node", nodes.Items[i].Name, "")
	}
	var pods corev1.PodList
	s.w.List(&pods)
	for i := range pods.Items {
		s.deliver("Pod", pods.Items[i].Name, pods.Items[i].Namespace)
	}
	s.deliverDaemonSets()
}

// runNcDisruption runs the real nodeclaim-disruption controller (Drifted / Consolidatable) for a claim.
func (s *sim) runNcDisruption(claim string) {
	nc := &v1.NodeClaim{ObjectMeta: metav1.ObjectMeta{Name: claim}}
	if !s.w.Get(nc) {
		return
	}
	s.w.Emit(trace.M{"e": "Begin", "controller": "nodeclaim.disruption", "object": claim})
	_, err := s.ncd.Reconcile(s.ctx, nc)
	s.w.Emit(trace.M{"e": "End", "controller": "nodeclaim.disruption", "object": claim, "err": errStr(err), "panic": false})
	s.deliver("NodeClaim", claim, "")
}

func errStr(err error) string {
	if err == nil {
		return "-"
	}
	return "error"
}

type timed struct {
	t  int
	fn func()
}

// build creates the cluster of the scenario and brings the clock to T0.
func (s *sim) build() error {
	w, sc := s.w, s.sc
	w.Prov.Types = s.catalog()
	s.types = map[string]*cloudprovider.InstanceType{}
	for _, it := range w.Prov.Types {
		s.types[it.Name] = it
	}
	s.pools = map[string]*v1.NodePool{}
	s.nodeBy = map[string]*NodeSpec{}
	w.EnvCreate(world.NodeClass())
	for i := range sc.Pools {
		p := &sc.Pools[i]
		np := s.mkPool(p)
		if p.Absent {
			// nodes refer to a pool that does not exist; the hash annotation still needs a value
			s.pools[p.Name] = np
			continue
		}
		w.EnvCreate(np)
		w.EnvMutate(np, "PoolStatus", func() { s.poolStatus(np, p.NotReady) })
		s.pools[p.Name] = np
		s.emitObj(np)
	}
	var timeline []timed
	for i := range sc.Nodes {
		n := &sc.Nodes[i]
		if n.Stage == "" {
			n.Stage = "initialized"
		}
		s.nodeBy[n.Name] = n
		if n.Managed {
			nc, st := s.mkClaim(n)
			w.EnvCreate(nc)
			w.EnvMutate(nc, "ClaimStatus", func() { st(nc) })
		}
		if !n.Managed || (n.Stage != "launched" && !n.NodeGone) {
			w.EnvCreate(s.mkNode(n))
		}
		if n.NominatedAt >= 0 {
			nn := n
			timeline = append(timeline, timed{n.NominatedAt, func() { s.nominate(nn) }})
		}
		if n.LastPodEvent >= 0 && n.Managed {
			// stamped at its own instant (a stamp from the future would confuse the controllers that run before T0)
			nn := n
			timeline = append(timeline, timed{n.LastPodEvent, func() {
				nc := &v1.NodeClaim{ObjectMeta: metav1.ObjectMeta{Name: claimName(nn)}}
				w.EnvMutate(nc, "SetLastPodEvent", func() { nc.Status.LastPodEventTime = mtime(nn.LastPodEvent) })
				s.deliver("NodeClaim", claimName(nn), "")
			}})
		}
		if n.Drifted && n.DriftedAt >= 0 && n.Managed {
			nn := n
			timeline = append(timeline, timed{n.DriftedAt, func() { s.runNcDisruption(claimName(nn)) }})
		}
	}
	s.createDaemonSets()
	for i := range sc.Pods {
		w.EnvCreate(s.mkPod(&sc.Pods[i]))
	}
	for i := range sc.PDBs {
		pdb := s.mkPDB(&sc.PDBs[i])
		w.EnvCreate(pdb)
		s.emitObj(pdb)
	}
	for i := range sc.Overlays { // C18
		w.EnvCreate(s.mkOverlay(&sc.Overlays[i]))
	}
	s.restart()
	s.hydrate()
	// objects that are deleting get their deletionTimestamp through the API (finalizers keep them)
	for i := range sc.Nodes {
		n := &sc.Nodes[i]
		if n.Deleting && n.Managed {
			nc := &v1.NodeClaim{ObjectMeta: metav1.ObjectMeta{Name: claimName(n)}}
			_ = w.Client.Delete(world.WithActor(context.Background(), "env"), nc)
			s.deliver("NodeClaim", claimName(n), "")
		}
		if n.NodeDeleting {
			node := &corev1.Node{ObjectMeta: metav1.ObjectMeta{Name: n.Name}}
			_ = w.Client.Delete(world.WithActor(context.Background(), "env"), node)
			s.deliver("Node", n.Name, "")
		}
	}
	for i := range sc.Pods {
		p := &sc.Pods[i]
		if p.Terminating {
			pp := p
			timeline = append(timeline, timed{p.TerminatingAt, func() {
				pod := &corev1.Pod{ObjectMeta: metav1.ObjectMeta{Name: pp.Name, Namespace: nsOf(pp.Namespace)}}
				_ = w.Client.Delete(world.WithActor(context.Background(), "env"), pod)
				s.deliver("Pod", pp.Name, nsOf(pp.Namespace))
			}})
		}
	}
	s.snapshot("built")
	sort.SliceStable(timeline, func(i, j int) bool { return timeline[i].t < timeline[j].t })
	for _, e := range timeline {
		if e.t > sc.T0 {
			return fmt.Errorf("timeline entry at %d after t0 %d", e.t, sc.T0)
		}
		w.Clock.SetTo(at(e.t))
		e.fn()
	}
	w.Clock.SetTo(at(sc.T0))
	s.snapshot("pre-ncdisruption")
	// the real nodeclaim-disruption controller decides Drifted / Consolidatable at T0
	for i := range sc.Nodes {
		n := &sc.Nodes[i]
		if n.Managed {
			s.runNcDisruption(claimName(n))
		}
	}
	for i := range sc.Nodes {
		n := &sc.Nodes[i]
		if n.Managed && n.Consolidatable != "" {
			s.forceConsolidatable(n, n.Consolidatable)
		}
		if n.Marked {
			s.mark(n, true)
		}
		if n.Buffer > 0 {
			s.buffer(n, n.Buffer)
		}
	}
	return nil
}

func nsOf(ns string) string {
	if ns == "" {
		return "default"
	}
	return ns
}

func (s *sim) nominate(n *NodeSpec) {
	s.cluster.NominateNodeForPod(s.ctx, pidOf(n))
	s.w.Emit(trace.M{"e": "Env", "what": "Nominate", "kind": "Mem", "name": n.Name, "post": trace.M{"exists": false}})
}

func (s *sim) mark(n *NodeSpec, on bool) {
	if on {
		s.cluster.MarkForDeletion(pidOf(n))
		s.w.Emit(trace.M{"e": "Env", "what": "Mark", "kind": "Mem", "name": n.Name, "post": trace.M{"exists": false}})
	} else {
		s.cluster.UnmarkForDeletion(pidOf(n))
		s.w.Emit(trace.M{"e": "Env", "what": "Unmark", "kind": "Mem", "name": n.Name, "post": trace.M{"exists": false}})
	}
}

var bufferCounts = map[*sim]map[string]int{}

func (s *sim) buffer(n *NodeSpec, k int) {
	m := bufferCounts[s]
	if m == nil {
		m = map[string]int{}
		bufferCounts[s] = m
	}
	m[pidOf(n)] = k
	cp := map[string]int{}
	for a, b := range m {
		if b > 0 {
			cp[a] = b
		}
	}
	s.cluster.UpdateBufferPodCounts(cp)
	s.w.Emit(trace.M{"e": "Env", "what": "Buffer", "kind": "Mem", "name": n.Name, "n": k, "post": trace.M{"exists": false}})
}

func (s *sim) forceConsolidatable(n *NodeSpec, v string) {
	nc := &v1.NodeClaim{ObjectMeta: metav1.ObjectMeta{Name: claimName(n)}}
	s.w.EnvMutate(nc, "SetConsolidatable", func() {
		var keep []status.Condition
		for _, c := range nc.Status.Conditions {
			if c.Type != v1.ConditionTypeConsolidatable {
				keep = append(keep, c)
			}
		}
		if v == "True" || v == "False" {
			keep = append(keep, status.Condition{Type: v1.ConditionTypeConsolidatable, Status: metav1.ConditionStatus(v), Reason: "Scenario",
				LastTransitionTime: metav1.NewTime(s.w.Clock.Now())})
		}
		nc.Status.Conditions = keep
	})
	s.deliver("NodeClaim", claimName(n), "")
}

func (s *sim) optionsCtx() context.Context {
	o := s.sc.Options
	return world.Ctx(func(op *options.Options) {
		if o.BatchMaxSec > 0 {
			op.BatchMaxDuration = time.Duration(o.BatchMaxSec) * time.Second
		}
		if o.MinValuesPolicy != "" {
			op.MinValuesPolicy = options.MinValuesPolicy(o.MinValuesPolicy)
		}
		if o.PreferIgnore {
			op.PreferencePolicy = options.PreferencePolicyIgnore
		}
		op.FeatureGates.SpotToSpotConsolidation = o.SpotToSpot
		op.FeatureGates.CapacityBuffer = o.CapacityBuffer
		op.FeatureGates.NodeOverlay = o.NodeOverlay
	})
}

var _ = client.IgnoreNotFound
