package disruption

import (
	"context"
	"encoding/json"
	"flag"
	"fmt"
	"os"
	"sort"
	"time"

	corev1 "k8s.io/api/core/v1"
	policyv1 "k8s.io/api/policy/v1"
	metav1 "k8s.io/apimachinery/pkg/apis/meta/v1"

	v1 "sigs.k8s.io/karpenter/pkg/apis/v1"
	kdisruption "sigs.k8s.io/karpenter/pkg/controllers/disruption"
	"sigs.k8s.io/karpenter/pkg/operator/injection"

	"verif/harness/reg"
	"verif/harness/trace"
	"verif/harness/world"
)

func init() { reg.Register("disruption", Run) }

var methodOrder = []string{"emptiness", "staticdrift", "drift", "multi", "single"}

func (s *sim) dctx() context.Context { return injection.WithControllerName(s.ctx, "disruption") }

// freshMethod returns a new instance of the named method (no consolidation-state memo from earlier calls).
func (s *sim) freshMethod(name string) (kdisruption.Method, error) {
	ms := kdisruption.NewMethods(s.w.Clock, s.cluster, s.w.Client, s.prov, s.frameProvider(), s.w.Rec, s.queue)
	for _, m := range ms {
		if methodName(m) == name {
			return m, nil
		}
	}
	return nil, fmt.Errorf("unknown method %q", name)
}

func candNames(cs []*kdisruption.Candidate) []string {
	out := []string{}
	for _, c := range cs {
		out = append(out, c.Name())
	}
	sort.Strings(out)
	return out
}

// guarded runs f with panic recovery and the mid-call hook armed.
func (s *sim) guarded(during []Step, f func() error) (errS string, panicked bool) {
	s.during = during
	s.inCall = true
	defer func() {
		s.inCall = false
		s.during = nil
		if r := recover(); r != nil {
			panicked = true
			errS = fmt.Sprint(r)
		}
	}()
	errS = "-"
	if err := f(); err != nil {
		errS = err.Error()
	}
	return
}

// onTick is called whenever virtual time advances. Inside a Method/Round call this is the validation
// wait: pending `during` steps are the churn that happens while the command waits.
func (s *sim) onTick() {
	if !s.inCall || len(s.during) == 0 {
		return
	}
	d := s.during
	s.during = nil
	s.inCall = false // env steps may tick themselves
	s.frameSnap("pause", "during") // C18: the simulation bracket is suspended while the environment moves
	for _, st := range d {
		if err := s.step(st); err != nil {
			s.w.Emit(trace.M{"e": "Note", "what": "during-error", "kind": "-", "name": "-", "msg": err.Error()})
		}
	}
	s.inCall = true
	s.snapshot("during")
	s.frameSnap("resume", "during")
}

func (s *sim) runCandidates(method string) error {
	m, err := s.freshMethod(method)
	if err != nil {
		return err
	}
	s.snapshot("pre-candidates")
	s.w.Emit(trace.M{"e": "Begin", "controller": "disruption.candidates", "object": method})
	var names []string
	errS, panicked := s.guarded(nil, func() error {
		cs, e := kdisruption.GetCandidates(s.dctx(), s.cluster, s.w.Client, s.w.Rec, s.w.Clock, s.frameProvider(), m.ShouldDisrupt, m.Class(), s.queue)
		names = candNames(cs)
		return e
	})
	s.w.Emit(trace.M{"e": "Cands", "mode": "candidates", "method": method, "class": m.Class(), "names": orEmpty(names)})
	s.w.Emit(trace.M{"e": "End", "controller": "disruption.candidates", "object": method, "err": short(errS), "panic": panicked})
	return nil
}

func orEmpty(x []string) []string {
	if x == nil {
		return []string{}
	}
	return x
}

func short(s string) string {
	if len(s) > 200 {
		return s[:200]
	}
	return s
}

// runMethod = Controller.disrupt without StartCommand: candidates, budgets, ComputeCommands (incl. validation).
func (s *sim) runMethod(method string, during []Step) error {
	m, err := s.freshMethod(method)
	if err != nil {
		return err
	}
	s.snapshot("pre-method")
	s.frameSnap("pre", frameCall(method))
	s.w.Emit(trace.M{"e": "Begin", "controller": "disruption.method", "object": method})
	var cmds []kdisruption.Command
	var budgets map[string]int
	errS, panicked := s.guarded(during, func() error {
		ctx := s.frameCtx(s.dctx()) // C18: Method{value:"cancelled"|"deadline", d:k} runs the method under an expiring context
		cs, totals, e := kdisruption.GetCandidatesWithTotals(ctx, s.cluster, s.w.Client, s.w.Rec, s.w.Clock, s.frameProvider(), m.ShouldDisrupt, m.Class(), s.queue, s.cost)
		s.w.Emit(trace.M{"e": "Cands", "mode": "method", "method": method, "class": m.Class(), "names": candNames(cs)})
		if e != nil || len(cs) == 0 {
			return e
		}
		if setter, ok := m.(kdisruption.NodePoolTotalsSetter); ok {
			setter.SetNodePoolTotals(totals)
		}
		budgets, e = kdisruption.BuildDisruptionBudgetMapping(ctx, s.cluster, s.w.Clock, s.w.Client, s.frameProvider(), s.w.Rec, m.Reason())
		if e != nil {
			return e
		}
		b := map[string]int{}
		for k, v := range budgets {
			b[k] = v
		}
		s.w.Emit(trace.M{"e": "Budget", "method": method, "reason": string(m.Reason()), "allowed": b})
		s.frameSetCands(cs)
		s.frameSnap("rebase", frameCall(method)) // C18: from here on the candidates (and their pods) are part of the frame
		cmds, e = m.ComputeCommands(ctx, budgets, cs...)
		return e
	})
	s.frameSnap("post", frameCall(method))
	s.frameSetCands(nil)
	for i := range cmds {
		if cmds[i].Decision() == kdisruption.NoOpDecision {
			continue
		}
		cmds[i].Method = m
		ev := s.absCommand("method", method, &cmds[i])
		s.c06Extend(ev, &cmds[i])
		s.w.Emit(ev)
	}
	s.dumpRec()
	s.w.Emit(trace.M{"e": "End", "controller": "disruption.method", "object": method, "err": short(errS), "panic": panicked})
	return nil
}

// runRound = one real Controller.Reconcile; what it decided shows up as choke-point events and in the queue.
func (s *sim) runRound(during []Step) error {
	s.snapshot("pre-round")
	before := map[*kdisruption.Command]bool{}
	for _, c := range s.queue.GetCommands() {
		before[c] = true
	}
	s.w.Emit(trace.M{"e": "Begin", "controller": "disruption", "object": "round"})
	res := "-"
	errS, panicked := s.guarded(during, func() error {
		r, e := s.ctrl.Reconcile(s.ctx)
		res = fmt.Sprintf("requeue=%v after=%ds", r.Requeue, int(r.RequeueAfter/time.Second))
		return e
	})
	for _, c := range s.queue.GetCommands() {
		if before[c] {
			continue
		}
		mn := "unknown"
		if c.Method != nil {
			mn = methodName(c.Method)
		}
		ev := s.absCommand("round", mn, c)
		s.c06Extend(ev, c)
		ev["e"] = "QCmd"
		s.w.Emit(ev)
	}
	s.w.Emit(trace.M{"e": "End", "controller": "disruption", "object": "round", "err": short(errS), "panic": panicked, "result": res})
	// the informers see what the controller wrote
	s.hydrate()
	return nil
}

// dumpRec logs (and clears) the Karpenter events published since the last call (VERIF_DEBUG only; never judged).
func (s *sim) dumpRec() {
	if os.Getenv("VERIF_DEBUG") == "" {
		s.w.Rec.Events = nil
		return
	}
	for _, ev := range s.w.Rec.Events {
		obj := "-"
		if ev.InvolvedObject != nil {
			obj = fmt.Sprintf("%T/%v", ev.InvolvedObject, ev.InvolvedObject)
			if len(obj) > 60 {
				obj = obj[:60]
			}
		}
		s.w.Emit(trace.M{"e": "Note", "what": "event", "kind": ev.Reason, "name": obj, "msg": short(ev.Message)})
	}
	s.w.Rec.Events = nil
}

func (s *sim) runQueue() {
	for _, c := range s.queue.GetCommands() {
		if len(c.Candidates) == 0 || c.Candidates[0].NodeClaim == nil {
			continue
		}
		nc := c.Candidates[0].NodeClaim.DeepCopy()
		s.w.Emit(trace.M{"e": "Begin", "controller": "disruption.queue", "object": nc.Name})
		errS, panicked := s.guarded(nil, func() error { _, e := s.queue.Reconcile(s.ctx, nc); return e })
		s.w.Emit(trace.M{"e": "End", "controller": "disruption.queue", "object": nc.Name, "err": short(errS), "panic": panicked})
	}
	s.hydrate()
}

func (s *sim) node(name string) (*NodeSpec, error) {
	n, ok := s.nodeBy[name]
	if !ok {
		return nil, fmt.Errorf("unknown node %q", name)
	}
	return n, nil
}

func (s *sim) step(st Step) error {
	w := s.w
	if len(st.Faults) > 0 {
		w.ClearFaults()
		for _, f := range st.Faults {
			w.AddFault(world.Fault{Actor: f.Actor, Verb: f.Verb, Kind: f.Kind, Name: f.Name, Sub: f.Sub, Nth: f.Nth, Err: f.Err})
		}
		defer w.ClearFaults()
	}
	s.frame().mode, s.frame().polls = st.Value, st.D // C18 (x_frame.go): context mode of a Method step
	switch st.A {
	case "Method":
		return s.runMethod(st.Method, st.During)
	case "Candidates":
		return s.runCandidates(st.Method)
	case "Round":
		return s.runRound(st.During)
	case "QueueReconcile":
		s.runQueue()
	case "Restart":
		s.restart()
		s.hydrate()
		w.Emit(trace.M{"e": "Restart"})
	case "Tick":
		w.Clock.Step(time.Duration(st.D) * time.Second)
	case "NcDisruption":
		s.snapshot("pre-ncdisruption")
		if st.Node != "" {
			n, err := s.node(st.Node)
			if err != nil {
				return err
			}
			s.runNcDisruption(claimName(n))
		} else {
			for i := range s.sc.Nodes {
				if s.sc.Nodes[i].Managed {
					s.runNcDisruption(claimName(&s.sc.Nodes[i]))
				}
			}
		}
	case "PodEvents":
		if st.Pod == nil {
			return fmt.Errorf("PodEvents without pod")
		}
		pod := &corev1.Pod{ObjectMeta: metav1.ObjectMeta{Name: st.Pod.Name, Namespace: nsOf(st.Pod.Namespace)}}
		if w.Get(pod) {
			w.Emit(trace.M{"e": "Begin", "controller": "nodeclaim.podevents", "object": podKey(pod)})
			_, err := s.podev.Reconcile(injection.WithControllerName(s.ctx, "nodeclaim.podevents"), pod)
			w.Emit(trace.M{"e": "End", "controller": "nodeclaim.podevents", "object": podKey(pod), "err": errStr(err), "panic": false})
			if n, ok := s.nodeBy[pod.Spec.NodeName]; ok && n.Managed {
				s.deliver("NodeClaim", claimName(n), "")
			}
		}
	case "Nominate":
		n, err := s.node(st.Node)
		if err != nil {
			return err
		}
		s.nominate(n)
	case "Mark", "Unmark":
		n, err := s.node(st.Node)
		if err != nil {
			return err
		}
		s.mark(n, st.A == "Mark")
	case "Buffer":
		n, err := s.node(st.Node)
		if err != nil {
			return err
		}
		s.buffer(n, st.N)
	case "SetPod":
		if st.Pod == nil {
			return fmt.Errorf("SetPod without pod")
		}
		pod := s.mkPod(st.Pod)
		cur := &corev1.Pod{ObjectMeta: metav1.ObjectMeta{Name: pod.Name, Namespace: pod.Namespace}}
		if w.Get(cur) {
			w.EnvMutate(cur, "SetPod", func() {
				cur.Annotations, cur.Labels, cur.Status, cur.Spec.NodeName = pod.Annotations, pod.Labels, pod.Status, pod.Spec.NodeName
				cur.OwnerReferences, cur.Spec.Tolerations, cur.Spec.Priority = pod.OwnerReferences, pod.Spec.Tolerations, pod.Spec.Priority
			})
		} else {
			w.EnvCreate(pod)
		}
		s.deliver("Pod", pod.Name, pod.Namespace)
	case "DeletePod":
		pod := &corev1.Pod{ObjectMeta: metav1.ObjectMeta{Name: st.Pod.Name, Namespace: nsOf(st.Pod.Namespace)}}
		w.EnvRemove(pod, "PodGone")
		s.deliver("Pod", pod.Name, pod.Namespace)
	case "SetPDB":
		pdb := s.mkPDB(st.PDB)
		cur := &policyv1.PodDisruptionBudget{ObjectMeta: metav1.ObjectMeta{Name: pdb.Name, Namespace: pdb.Namespace}}
		if w.Get(cur) {
			w.EnvMutate(cur, "SetPDB", func() { cur.Spec, cur.Status = pdb.Spec, pdb.Status })
		} else {
			w.EnvCreate(pdb)
		}
	case "DeletePDB":
		w.EnvRemove(&policyv1.PodDisruptionBudget{ObjectMeta: metav1.ObjectMeta{Name: st.PDB.Name, Namespace: nsOf(st.PDB.Namespace)}}, "PDBGone")
	case "AnnotateNode":
		node := &corev1.Node{ObjectMeta: metav1.ObjectMeta{Name: st.Node}}
		w.EnvMutate(node, "AnnotateNode", func() {
			if node.Annotations == nil {
				node.Annotations = map[string]string{}
			}
			if st.Value == "" {
				delete(node.Annotations, v1.DoNotDisruptAnnotationKey)
			} else {
				node.Annotations[v1.DoNotDisruptAnnotationKey] = st.Value
			}
		})
		s.deliver("Node", st.Node, "")
	case "DeleteClaim":
		n, err := s.node(st.Node)
		if err != nil {
			return err
		}
		_ = w.Client.Delete(world.WithActor(context.Background(), "env"), &v1.NodeClaim{ObjectMeta: metav1.ObjectMeta{Name: claimName(n)}})
		s.deliver("NodeClaim", claimName(n), "")
	case "SetConsolidatable":
		n, err := s.node(st.Node)
		if err != nil {
			return err
		}
		s.forceConsolidatable(n, st.Value)
	case "SetLastPodEvent":
		n, err := s.node(st.Node)
		if err != nil {
			return err
		}
		nc := &v1.NodeClaim{ObjectMeta: metav1.ObjectMeta{Name: claimName(n)}}
		w.EnvMutate(nc, "SetLastPodEvent", func() {
			if st.D < 0 {
				nc.Status.LastPodEventTime = metav1.Time{}
			} else {
				nc.Status.LastPodEventTime = mtime(st.D)
			}
		})
		s.deliver("NodeClaim", claimName(n), "")
	case "SetOffering":
		s.setOffering(st.Type, st.Zone, st.CT, st.Price, st.Available)
	case "SetPool":
		// edit of the NodePool's disruption block: value = pool name, d = consolidateAfter seconds (-1 Never, -2 unchanged),
		// method = consolidation policy ("" unchanged)
		np := &v1.NodePool{ObjectMeta: metav1.ObjectMeta{Name: st.Value}}
		if !w.EnvMutate(np, "SetPool", func() {
			switch {
			case st.D == -1:
				np.Spec.Disruption.ConsolidateAfter = v1.MustParseNillableDuration("Never")
			case st.D >= 0:
				np.Spec.Disruption.ConsolidateAfter = v1.MustParseNillableDuration(fmt.Sprintf("%ds", st.D))
			}
			if st.Method != "" {
				np.Spec.Disruption.ConsolidationPolicy = v1.ConsolidationPolicy(st.Method)
			}
			np.Generation++
		}) {
			return fmt.Errorf("SetPool: unknown pool %q", st.Value)
		}
		s.emitObj(np)
		s.frameReconcileOverlays() // C18: the nodeoverlay controller watches NodePools (generation changes)
		s.deliver("NodePool", st.Value, "")
	case "Snapshot":
		s.snapshot("step")
	case "Simulate": // C18 (x_frame.go)
		return s.runSimulate(st)
	case "Pass": // C18 (x_frame.go)
		return s.runPass()
	case "CapacityBuffer": // C18 (x_frame.go)
		return s.runCapacityBuffer(st)
	case "SetOverlay", "DeleteOverlay": // C18 (x_frame.go)
		return s.runOverlay(st)
	default:
		return fmt.Errorf("unknown step %q", st.A)
	}
	return nil
}

// RunOne executes one scenario in a fresh world, writing its trace.
func RunOne(sc *Scenario, tw *trace.Writer) (err error) {
	w := world.New()
	s := &sim{sc: sc, w: w}
	s.ctx = s.optionsCtx()
	bm := sc.Options.BatchMaxSec
	if bm == 0 {
		bm = 10
	}
	s.nomWin = max(2*bm, 10)
	cfg := normalize(sc).(map[string]any)
	delete(cfg, "steps")
	tags := map[string]any{}
	if t, ok := cfg["tags"].(map[string]any); ok {
		tags = t
	}
	raw, _ := json.Marshal(sc)
	tw.Begin(trace.M{"module": "Disruption", "name": sc.Name, "tags": tags, "t0": sc.T0, "nominationWindow": s.nomWin,
		"validationDelay": 15, "scenario": cfg, "scenarioJson": string(raw), "spotToSpot": sc.Options.SpotToSpot})
	w.Sink = tw.Emit
	tick := w.Clock.OnTick
	w.Clock.OnTick = func(to time.Time) {
		tick(to)
		s.onTick()
	}
	defer func() {
		delete(bufferCounts, s)
		delete(frameState, s)
		if r := recover(); r != nil {
			err = fmt.Errorf("scenario %s: panic in driver: %v", sc.Name, r)
		}
	}()
	if err := s.build(); err != nil {
		return err
	}
	for _, st := range sc.Steps {
		if err := s.step(st); err != nil {
			return fmt.Errorf("scenario %s: %w", sc.Name, err)
		}
	}
	s.snapshot("final")
	return nil
}

func Run(args []string) error {
	fs := flag.NewFlagSet("disruption", flag.ContinueOnError)
	in := fs.String("in", "", "scenarios JSON (array)")
	out := fs.String("out", "traces", "output directory")
	shards := fs.Int("shards", 8, "trace shards")
	prefix := fs.String("prefix", "disruption", "trace file prefix")
	if err := fs.Parse(args); err != nil {
		return err
	}
	raw, err := os.ReadFile(*in)
	if err != nil {
		return err
	}
	var scs []Scenario
	if err := json.Unmarshal(raw, &scs); err != nil {
		return err
	}
	tw, err := trace.NewWriter(*out, *prefix, *shards)
	if err != nil {
		return err
	}
	for i := range scs {
		if err := RunOne(&scs[i], tw); err != nil {
			return fmt.Errorf("scenario %d: %w", i, err)
		}
	}
	paths := tw.Close()
	sum, _ := json.Marshal(trace.M{"traces": tw.N, "lines": tw.Lines, "files": paths})
	fmt.Println(string(sum))
	return nil
}
