// Package disruption binds Disruption.tla (C07; foundation for C05 rounds, C06, C08, C18) to the real
// disruption controller and its five methods running against the harness world.
//
// A *scenario* (JSON, schema in spec/DISRUPT_TRACE.md) describes a cluster - pools, nodes with
// NodeClaims in any lifecycle stage, pods, PDBs - and a list of steps.  The driver turns it into API
// objects on the world harness, hydrates the real state.Cluster through the real informer
// controllers, lets the real nodeclaim-disruption controller write Consolidatable / Drifted, and then
// runs the real disruption.Controller (one Reconcile = one round) and/or each Method directly
// (GetCandidates + BuildDisruptionBudgetMapping + ComputeCommands, i.e. Controller.disrupt without
// the orchestration).  It only records: world snapshots, candidate sets, commands, choke-point events.
package disruption

import "encoding/json"

// All times are whole virtual seconds since the scenario epoch (world.Epoch); -1 = absent.

type Scenario struct {
	Name    string         `json:"name"`
	Tags    map[string]any `json:"tags,omitempty"` // opaque to the driver, copied into Cfg (cell, blocker, method, role...)
	Options Options        `json:"options"`
	Catalog []TypeSpec     `json:"catalog,omitempty"` // empty = world.DefaultCatalog()
	Pools   []PoolSpec     `json:"pools"`
	Nodes   []NodeSpec     `json:"nodes"`
	Pods    []PodSpec      `json:"pods"`
	PDBs    []PDBSpec      `json:"pdbs"`
	// DaemonSets: DaemonSet objects (C06 scenarios; see c06.go)
	DaemonSets []DSSpec `json:"daemonsets,omitempty"`
	// Overlays: NodeOverlay objects present from the start (C18; options.nodeOverlay must be on, see x_frame.go)
	Overlays []OverlaySpec `json:"overlays,omitempty"`
	// T0: the clock value at which the cluster is complete and the first step runs. Nominations and
	// other clock-dependent in-memory marks are applied on the way there, at their own instants.
	T0    int    `json:"t0"`
	Steps []Step `json:"steps"`
}

type Options struct {
	SpotToSpot      bool   `json:"spotToSpot"`
	BatchMaxSec     int    `json:"batchMaxSec"`     // 0 = 10 (nomination window = max(2*batchMax, 10s))
	MinValuesPolicy string `json:"minValuesPolicy"` // "" = Strict
	PreferIgnore    bool   `json:"preferIgnore"`
	CapacityBuffer  bool   `json:"capacityBuffer"`
	// NodeOverlay: the NodeOverlay feature gate; every component then gets the overlay-DECORATED cloud provider and the real
	// nodeoverlay controller (on the undecorated provider) fills the instance type store, as in the operator (x_frame.go)
	NodeOverlay bool `json:"nodeOverlay,omitempty"`
	// Project: "" | "c06" (Cmd/QCmd additionally carry the SchedulingGuards-shaped cluster and claims, see c06.go)
	Project string `json:"project,omitempty"`
}

// DSSpec: a DaemonSet object (C06 scenarios); its pods are PodSpecs with DS = its name.
type DSSpec struct {
	Name  string            `json:"name"`
	CPU   int               `json:"cpu"`
	MemMi int               `json:"memMi"`
	Sel   map[string]string `json:"sel,omitempty"` // nodeSelector of the pod template, short keys
}

// OverlaySpec: a NodeOverlay (C18). Capacity: extended resource name -> quantity; Price / PriceAdjustment as in the API ("" unset).
type OverlaySpec struct {
	Name            string            `json:"name"`
	Weight          int               `json:"weight,omitempty"`
	Requirements    []ReqSpec         `json:"requirements,omitempty"`
	Price           string            `json:"price,omitempty"`
	PriceAdjustment string            `json:"priceAdjustment,omitempty"`
	Capacity        map[string]string `json:"capacity,omitempty"`
}

type OfferingSpec struct {
	Zone      string `json:"zone"`
	CT        string `json:"ct"`
	Price     int    `json:"price"` // 1/1000
	Available bool   `json:"available"`
	// Rid / Rcap: reservation id and capacity of a reserved offering (ct "reserved"); C06 scenarios
	Rid  string `json:"rid,omitempty"`
	Rcap int    `json:"rcap,omitempty"`
}

type TypeSpec struct {
	Name      string         `json:"name"`
	CPU       int            `json:"cpu"` // milli
	MemMi     int            `json:"memMi"`
	Offerings []OfferingSpec `json:"offerings"`
}

type BudgetSpec struct {
	Nodes       string   `json:"nodes"`
	Reasons     []string `json:"reasons,omitempty"`
	Schedule    string   `json:"schedule,omitempty"`
	DurationSec int      `json:"durationSec,omitempty"`
}

type ReqSpec struct {
	Key      string   `json:"key"`
	Op       string   `json:"op"`
	Values   []string `json:"values"`
	MinVals  int      `json:"minValues,omitempty"`
}

type PoolSpec struct {
	Name             string       `json:"name"`
	Static           bool         `json:"static"`
	Replicas         int          `json:"replicas"`         // static pools only
	Policy           string       `json:"policy"`           // WhenEmpty | WhenEmptyOrUnderutilized | Balanced ("" = WhenEmptyOrUnderutilized)
	ConsolidateAfter int          `json:"consolidateAfter"` // seconds; -1 = Never (consolidation disabled)
	Budgets          []BudgetSpec `json:"budgets,omitempty"` // empty = [{nodes:"100%"}]
	TGP              int          `json:"tgp"`               // template terminationGracePeriod, -1 none (informational; nodes carry their own)
	Weight           int          `json:"weight,omitempty"`
	NodeLimit        int          `json:"nodeLimit,omitempty"` // limits.nodes, 0 = none
	Requirements     []ReqSpec    `json:"requirements,omitempty"`
	// Absent: nodes carry the pool label but the NodePool object does not exist (pool unknown).
	Absent bool `json:"absent"`
	// NotReady: NodeClassReady=False (pool known to disruption, ignored by the provisioner).
	NotReady bool `json:"notReady,omitempty"`
	// Ext: extras for C18 (x_frame.go): preferNoSchedule=<v> adds a PreferNoSchedule taint to the pool template.
	Ext map[string]string `json:"ext,omitempty"`
}

type NodeSpec struct {
	Name string `json:"name"`
	Pool string `json:"pool"` // "" for unmanaged nodes without pool label
	Type string `json:"type"`
	Zone string `json:"zone"`
	CT   string `json:"ct"`
	// Managed=false: a Node without NodeClaim (not Karpenter's).
	Managed bool `json:"managed"`
	// Stage of the NodeClaim/Node pair: "launched" (NodeClaim with provider id, no Node), "registered"
	// (Node exists with the registered label, not initialized), "initialized".
	Stage         string `json:"stage"`
	InitializedAt int    `json:"initializedAt"` // transition time of Initialized=True (stage initialized)
	LastPodEvent  int    `json:"lastPodEvent"`  // status.lastPodEventTime, -1 unset
	CreatedAt     int    `json:"createdAt"`
	// NodeGone: stage initialized, but the Node object does not exist (deleted out from under the NodeClaim).
	NodeGone bool `json:"nodeGone"`
	// Deleting: the NodeClaim carries a deletionTimestamp (and its finalizer).
	Deleting bool `json:"deleting"`
	// NodeDeleting: the Node carries a deletionTimestamp (NodeClaim untouched).
	NodeDeleting bool `json:"nodeDeleting"`
	// InstanceTerminating: NodeClaim condition InstanceTerminating=True.
	InstanceTerminating bool `json:"instanceTerminating"`
	// Marked: state.Cluster.MarkForDeletion(providerID) (in-memory mark of a running command).
	Marked bool `json:"marked"`
	// NominatedAt: instant at which Cluster.NominateNodeForPod is called, -1 never.
	NominatedAt int `json:"nominatedAt"`
	// NodeDnd: value of karpenter.sh/do-not-disrupt on the Node ("" none); ClaimDnd same on the NodeClaim.
	NodeDnd  string `json:"nodeDnd"`
	ClaimDnd string `json:"claimDnd"`
	// Drifted: the NodeClaim's nodepool-hash annotation differs from the pool's (the real
	// nodeclaim-disruption controller then sets Drifted=True). DriftedAt: transition instant if >=0
	// (the controller is run at that instant), else it is run at T0.
	Drifted   bool `json:"drifted"`
	DriftedAt int  `json:"driftedAt"`
	TGP       int  `json:"tgp"` // spec.terminationGracePeriod seconds, -1 none
	// Buffer: capacity-buffer (virtual pod) placements recorded for this node by the last provisioning pass.
	Buffer int `json:"buffer"`
	// NoPoolLabel: the Node (and NodeClaim) lack the karpenter.sh/nodepool label.
	NoPoolLabel bool `json:"noPoolLabel"`
	NotReady    bool `json:"notReady"` // Node Ready condition False
	// Consolidatable: "" = whatever the real nodeclaim-disruption controller writes; "True"/"False"/"Absent"
	// force the condition after that controller ran (stale condition).
	Consolidatable string `json:"consolidatable"`
	Tainted        bool   `json:"tainted"` // karpenter.sh/disrupted:NoSchedule already present (left-over)
	ExpireAfter    int    `json:"expireAfter"` // -1 Never
	// Taints: extra persistent taints on the Node (C06 scenarios)
	Taints []TaintSpec `json:"taints,omitempty"`
	// DropLabels: well-known labels the Node object LACKS (C18): hostname | zone | arch | os | ct | type (the kubelet has not
	// set them yet / they were removed); the NodeClaim keeps its labels
	DropLabels []string `json:"dropLabels,omitempty"`
}

type PodSpec struct {
	Name      string            `json:"name"`
	Namespace string            `json:"ns"`
	Node      string            `json:"node"` // "" = pending (unschedulable)
	CPU       int               `json:"cpu"`
	MemMi     int               `json:"memMi"`
	Owner     string            `json:"owner"` // "", replicaset, daemonset, statefulset, node
	Dnd       string            `json:"dnd"`   // annotation value, "" none ("true", "10m", "garbage"...)
	StartedAt int               `json:"startedAt"` // status.startTime, -1 unset
	Phase     string            `json:"phase"`     // "" = Running
	// Terminating: deletionTimestamp set at TerminatingAt.
	Terminating   bool              `json:"terminating"`
	TerminatingAt int               `json:"terminatingAt"`
	Labels        map[string]string `json:"labels,omitempty"`
	// DeletionCost: value of controller.kubernetes.io/pod-deletion-cost ("" none).
	DeletionCost string `json:"deletionCost"`
	Priority     int    `json:"priority"`
	HasPriority  bool   `json:"hasPriority"`
	// ToleratesDisruption: tolerates karpenter.sh/disrupted:NoSchedule (never evicted by Karpenter).
	ToleratesDisruption bool `json:"toleratesDisruption"`
	// ReadyFalse: PodReady condition False (matters for PDBs with unhealthyPodEvictionPolicy AlwaysAllow).
	ReadyFalse bool `json:"readyFalse"`
	// Ext: scheduling-relevant extras (host port, preferred/required zone, anti-affinity, spread, pvc), see x_frame.go (C18).
	Ext map[string]string `json:"ext,omitempty"`
	// Sel: nodeSelector with the short keys of spec/SCHED_TRACE.md (zone, ct, it, ...); Tol: extra tolerations (C06 scenarios)
	Sel map[string]string `json:"sel,omitempty"`
	Tol []TolSpec         `json:"tol,omitempty"`
	// DS: the pod belongs to this DaemonSet of Scenario.DaemonSets (owner reference to the real object)
	DS string `json:"ds,omitempty"`
}

type PDBSpec struct {
	Name      string            `json:"name"`
	Namespace string            `json:"ns"`
	Selector  map[string]string `json:"selector"` // matchLabels; empty = every pod of the namespace
	NilSel    bool              `json:"nilSelector"`
	Allowed   int               `json:"allowed"` // status.disruptionsAllowed
	// MaxUnavailable / MinAvailable as strings ("" unset, "0", "0%", "100%", "1").
	MaxUnavailable string `json:"maxUnavailable"`
	MinAvailable   string `json:"minAvailable"`
	AlwaysAllow    bool   `json:"alwaysAllowUnhealthy"`
}

// Step kinds:
//   Method{method}      GetCandidates(method) + budget mapping + ComputeCommands on a fresh Method (no orchestration)
//   Candidates{method}  GetCandidates only
//   Round               one disruption.Controller.Reconcile (methods in order, StartCommand of the first success)
//   NcDisruption{node}  nodeclaim-disruption controller Reconcile for the node's NodeClaim ("" = all)
//   PodEvents{pod}      nodeclaim podevents controller Reconcile for the pod
//   Tick{d}             advance the clock
//   Nominate{node} Mark{node} Unmark{node} Buffer{node,n}     in-memory marks through the real Cluster methods
//   SetPod{pod fields} DeletePod{pod} SetPDB{pdb fields} AnnotateNode{node,dnd} DeleteClaim{node} SetConsolidatable{node,value}
//                       environment changes (followed by the informer reconcile of the object)
//   SetPool{value: pool, d: consolidateAfter s (-1 Never, -2 keep), method: policy ("" keep)}   NodePool edit + informer
//   QueueReconcile      disruption.Queue.Reconcile for every command in the queue
// Method / Candidates / Round / QueueReconcile accept `faults` (API calls of the step that fail).
// During: environment steps executed when the clock advances *inside* the next Method/Round step
// (i.e. during the 15 s validation wait), before the validators re-read the cluster.
// FaultSpec makes the nth (1-based; 0 = every) matching API call of the step fail (empty fields match anything).
type FaultSpec struct {
	Actor string `json:"actor,omitempty"`
	Verb  string `json:"verb,omitempty"` // get list create delete update patch
	Kind  string `json:"kind,omitempty"`
	Name  string `json:"name,omitempty"`
	Sub   string `json:"sub,omitempty"` // "" main resource, "status", "*" any
	Nth   int    `json:"nth"`
	Err   string `json:"err"` // Conflict | NotFound | Server | TooManyRequests
}

type Step struct {
	A      string   `json:"a"`
	// Faults: fault plan in force during a Method / Candidates / Round / QueueReconcile step.
	Faults []FaultSpec `json:"faults,omitempty"`
	Method string   `json:"method,omitempty"`
	Node   string   `json:"node,omitempty"`
	D      int      `json:"d,omitempty"`
	N      int      `json:"n,omitempty"`
	Value  string   `json:"value,omitempty"`
	Pod    *PodSpec `json:"pod,omitempty"`
	PDB    *PDBSpec `json:"pdb,omitempty"`
	// Overlay: SetOverlay{overlay} creates or replaces a NodeOverlay, DeleteOverlay{value: name} removes one; both are followed
	// by the nodeoverlay controller's reconcile (C18, x_frame.go)
	Overlay *OverlaySpec `json:"overlay,omitempty"`
	During []Step   `json:"during,omitempty"`
	// SetOffering{type, zone, ct, price (1/1000, -1 keep), available}: one offering of the provider catalog changes
	Type      string `json:"type,omitempty"`
	Zone      string `json:"zone,omitempty"`
	CT        string `json:"ct,omitempty"`
	Price     int    `json:"price,omitempty"`
	Available bool   `json:"available,omitempty"`
}

// Defaults: absent integer fields that mean "none" default to -1 (not Go's 0).

func (n *NodeSpec) UnmarshalJSON(b []byte) error {
	type alias NodeSpec
	a := alias{Managed: true, Stage: "initialized", InitializedAt: 0, LastPodEvent: -1, NominatedAt: -1, DriftedAt: -1, TGP: -1, ExpireAfter: -1,
		Type: "small", Zone: "zone-a", CT: "on-demand"}
	if err := json.Unmarshal(b, &a); err != nil {
		return err
	}
	*n = NodeSpec(a)
	return nil
}

func (p *PodSpec) UnmarshalJSON(b []byte) error {
	type alias PodSpec
	a := alias{StartedAt: -1, TerminatingAt: -1, CPU: 100, MemMi: 64}
	if err := json.Unmarshal(b, &a); err != nil {
		return err
	}
	*p = PodSpec(a)
	return nil
}

func (p *PoolSpec) UnmarshalJSON(b []byte) error {
	type alias PoolSpec
	a := alias{TGP: -1}
	if err := json.Unmarshal(b, &a); err != nil {
		return err
	}
	*p = PoolSpec(a)
	return nil
}

func (p *PDBSpec) UnmarshalJSON(b []byte) error {
	type alias PDBSpec
	a := alias{Allowed: 1}
	if err := json.Unmarshal(b, &a); err != nil {
		return err
	}
	*p = PDBSpec(a)
	return nil
}
