package disruption

// C18 (frame conditions): Snapshot brackets around every simulation, plus the steps Frame.tla's behaviours need
// (`Simulate` = one direct disruption.SimulateScheduling call on a chosen candidate set, optionally with a context
// that is already cancelled or that expires after k polls; `Pass` = one Provisioner.Schedule).
//
// Snapshot phases (see spec/Frame_Trace.tla):
//   pre     opens a bracket, the snapshot is the baseline
//   rebase  compared with the baseline on every section except the driver-supplied ones (x), then becomes the
//           baseline (used when the candidates handed to ComputeCommands become known)
//   pause   compared with the baseline; environment steps follow (the churn during the validation wait)
//   resume  new baseline after the environment steps
//   post    compared with the baseline, closes the bracket
// The driver only records.

import (
	"context"
	"fmt"
	"os"
	"reflect"
	"sort"
	"strconv"
	"strings"
	"time"
	"unsafe"

	corev1 "k8s.io/api/core/v1"
	storagev1 "k8s.io/api/storage/v1"
	"k8s.io/apimachinery/pkg/api/resource"
	metav1 "k8s.io/apimachinery/pkg/apis/meta/v1"
	"sigs.k8s.io/controller-runtime/pkg/reconcile"

	autoscalingv1beta1 "sigs.k8s.io/karpenter/pkg/apis/autoscaling/v1beta1"
	v1 "sigs.k8s.io/karpenter/pkg/apis/v1"
	"sigs.k8s.io/karpenter/pkg/apis/v1alpha1"
	"sigs.k8s.io/karpenter/pkg/cloudprovider"
	"sigs.k8s.io/karpenter/pkg/cloudprovider/overlay"
	kdisruption "sigs.k8s.io/karpenter/pkg/controllers/disruption"
	"sigs.k8s.io/karpenter/pkg/controllers/nodeoverlay"
	pscheduling "sigs.k8s.io/karpenter/pkg/controllers/provisioning/scheduling"
	"sigs.k8s.io/karpenter/pkg/state/virtualpods"

	"verif/harness/trace"
	"verif/harness/world"
)

type frameSt struct {
	cp    cloudprovider.CloudProvider // what every component is handed: w.Prov, or w.Prov behind the NodeOverlay decorator
	ovl   *nodeoverlay.Controller
	store *nodeoverlay.InstanceTypeStore
	cands []*kdisruption.Candidate
	n     int
	mode  string // context mode of the current Method step: "" | cancelled | deadline
	polls int
}

// frameCtx wraps the context of a Method step: already cancelled, or reporting DeadlineExceeded after `polls` polls.
func (s *sim) frameCtx(ctx context.Context) context.Context {
	st := s.frame()
	switch st.mode {
	case "cancelled":
		c2, cancel := context.WithCancel(ctx)
		cancel()
		return c2
	case "deadline":
		left := st.polls
		return pollCtx{Context: ctx, left: &left}
	}
	return ctx
}

var frameState = map[*sim]*frameSt{}

func (s *sim) frame() *frameSt {
	st := frameState[s]
	if st == nil {
		st = &frameSt{}
		frameState[s] = st
	}
	return st
}

// frameSetCands registers the candidate objects handed to the next simulation(s); they are part of later snapshots
// (section x: "candidates" = the whole candidate incl. its StateNode copy, "candidatePods" = its reschedulable pods).
func (s *sim) frameSetCands(cs []*kdisruption.Candidate) { s.frame().cands = cs }

func candPods(c *kdisruption.Candidate) []*corev1.Pod {
	f := reflect.ValueOf(c).Elem().FieldByName("reschedulablePods")
	if !f.IsValid() {
		return nil
	}
	f = reflect.NewAt(f.Type(), unsafe.Pointer(f.UnsafeAddr())).Elem()
	pods, _ := f.Interface().([]*corev1.Pod)
	return pods
}

// normPod: the ORDER of a pod's preferred node-affinity terms carries no meaning in Kubernetes (a set of weighted terms);
// Karpenter sorts that slice by weight in place whenever it computes a pod's requirements (scheduling.NewPodRequirements),
// also on the candidates' pod objects.  The abstraction therefore orders the terms canonically; everything else
// (which terms exist, their weights and contents, every other field of the pod) is compared as is.
//
// Likewise a spread constraint's matchLabelKeys MEAN "labelSelector AND key In [the pod's value]" (the API server of newer
// Kubernetes versions merges them itself); Karpenter's Topology.newForTopologies appends exactly those expressions to the
// pod's selector object in place on every Update, so the selector of a long-lived pod object grows by duplicates.  The
// abstraction drops the expressions that matchLabelKeys already imply.
func normPod(p *corev1.Pod) *corev1.Pod {
	if p == nil || os.Getenv("VERIF_FRAME_RAW") != "" { // VERIF_FRAME_RAW=1 (diagnosis): no quotient, shows what HEAD does to the pod objects
		return p
	}
	manyPrefs := p.Spec.Affinity != nil && p.Spec.Affinity.NodeAffinity != nil &&
		len(p.Spec.Affinity.NodeAffinity.PreferredDuringSchedulingIgnoredDuringExecution) >= 2
	keys := false
	for _, t := range p.Spec.TopologySpreadConstraints {
		keys = keys || (len(t.MatchLabelKeys) > 0 && t.LabelSelector != nil)
	}
	if !manyPrefs && !keys {
		return p
	}
	c := p.DeepCopy()
	if manyPrefs {
		pr := c.Spec.Affinity.NodeAffinity.PreferredDuringSchedulingIgnoredDuringExecution
		key := func(t corev1.PreferredSchedulingTerm) string {
			return fmt.Sprintf("%010d|%s", 1<<30-int(t.Weight), world.Digest(t))
		}
		sort.SliceStable(pr, func(i, j int) bool { return key(pr[i]) < key(pr[j]) })
	}
	for i := range c.Spec.TopologySpreadConstraints {
		t := &c.Spec.TopologySpreadConstraints[i]
		if len(t.MatchLabelKeys) == 0 || t.LabelSelector == nil {
			continue
		}
		var keep []metav1.LabelSelectorRequirement
		for _, e := range t.LabelSelector.MatchExpressions {
			implied := false
			for _, k := range t.MatchLabelKeys {
				if v, ok := c.Labels[k]; ok && e.Key == k && e.Operator == metav1.LabelSelectorOpIn && len(e.Values) == 1 && e.Values[0] == v {
					implied = true
				}
			}
			if !implied {
				keep = append(keep, e)
			}
		}
		t.LabelSelector.MatchExpressions = keep
	}
	return c
}

func (s *sim) frameSnap(phase, call string) {
	if !world.SnapshotEnabled() {
		return
	}
	st := s.frame()
	st.n++
	cands := world.SnapExtra{Name: "candidates"}
	cpods := world.SnapExtra{Name: "candidatePods"}
	for _, c := range st.cands {
		if c == nil {
			continue
		}
		// the pods are a section of their own (in a normal form, see normPod)
		cands.Items = append(cands.Items, world.SnapItem{Key: c.Name(), Val: c, Skip: []string{"Candidate.reschedulablePods"}})
		for i, p := range candPods(c) {
			cpods.Items = append(cpods.Items, world.SnapItem{Key: c.Name() + "/" + strconv.Itoa(i) + ":" + podKey(p), Val: normPod(p)})
		}
	}
	// a method may sort the candidate slice it is handed (sortCandidates): the SET of candidates is what is compared
	sort.SliceStable(cands.Items, func(i, j int) bool { return cands.Items[i].Key < cands.Items[j].Key })
	sort.SliceStable(cpods.Items, func(i, j int) bool { return cpods.Items[i].Key < cpods.Items[j].Key })
	// the CapacityBuffer virtual pods live in a cache shared by every pass and simulation (GetAll hands out the cached objects):
	// hydrate it (lazy on first use) and make the cached pod objects a section of their own
	vpods := world.SnapExtra{Name: "virtualPods"}
	if s.sc.Options.CapacityBuffer {
		if vc := s.virtualCache(); vc != nil {
			for _, p := range vc.GetAll(s.ctx) {
				vpods.Items = append(vpods.Items, world.SnapItem{Key: podKey(p), Val: normPod(p)})
			}
			sort.SliceStable(vpods.Items, func(i, j int) bool { return vpods.Items[i].Key < vpods.Items[j].Key })
		}
	}
	ev := s.w.Snapshot(s.cluster, cands, cpods, vpods)
	ev["phase"], ev["call"], ev["n"] = phase, call, st.n
	s.w.Emit(ev)
}

// pollCtx reports DeadlineExceeded from the k-th Err() poll on (a simulation that times out half-way: the scheduler
// polls the context before every placement attempt).
type pollCtx struct {
	context.Context
	left *int
}

func (p pollCtx) Err() error {
	if *p.left <= 0 {
		return context.DeadlineExceeded
	}
	*p.left--
	return nil
}
func (p pollCtx) Done() <-chan struct{}       { return nil }
func (p pollCtx) Deadline() (time.Time, bool) { return time.Time{}, false }

// runSimulate: `value` = comma-separated node names (the candidate set; "" = every candidate), `method` = context mode
// ("" live, "cancelled", "deadline"; `d` = polls before the deadline hits), `n` = consecutive repetitions.
func (s *sim) runSimulate(st Step) error {
	want := map[string]bool{}
	for _, n := range strings.Split(st.Value, ",") {
		if n = strings.TrimSpace(n); n != "" {
			want[n] = true
		}
	}
	// the candidate discovery is part of the bracket of the first simulation (it resolves every pool's instance types through the
	// cloud provider, like the discovery of a method does); the candidates join the frame once they are known (rebase)
	s.frameSetCands(nil)
	s.frameSnap("pre", "simulate")
	all, err := kdisruption.GetCandidates(s.dctx(), s.cluster, s.w.Client, s.w.Rec, s.w.Clock, s.frameProvider(),
		func(context.Context, *kdisruption.Candidate) bool { return true }, kdisruption.GracefulDisruptionClass, s.queue)
	if err != nil {
		s.frameSnap("post", "simulate")
		s.w.Emit(trace.M{"e": "Note", "what": "simulate-candidates-error", "kind": "-", "name": "-", "msg": short(err.Error())})
		return nil
	}
	var cs []*kdisruption.Candidate
	for _, c := range all {
		if len(want) == 0 || want[c.Name()] {
			cs = append(cs, c)
		}
	}
	sort.Slice(cs, func(i, j int) bool { return cs[i].Name() < cs[j].Name() })
	s.frameSetCands(cs)
	defer s.frameSetCands(nil)
	reps := st.N
	if reps < 1 {
		reps = 1
	}
	for r := 0; r < reps; r++ {
		ctx := s.dctx()
		switch st.Method {
		case "cancelled":
			c2, cancel := context.WithCancel(ctx)
			cancel()
			ctx = c2
		case "deadline":
			left := st.D
			ctx = pollCtx{Context: ctx, left: &left}
		}
		if r == 0 {
			s.frameSnap("rebase", "simulate")
		} else {
			s.frameSnap("pre", "simulate")
		}
		s.w.Emit(trace.M{"e": "Begin", "controller": "disruption.simulate", "object": orDashS(st.Value)})
		var res pscheduling.Results
		errS, panicked := s.guarded(nil, func() error {
			var e error
			res, e = kdisruption.SimulateScheduling(ctx, s.w.Client, s.cluster, s.prov, s.w.Clock, s.w.Rec, nil, cs...)
			return e
		})
		onExisting, onNew := 0, 0
		for _, en := range res.ExistingNodes {
			onExisting += len(en.Pods)
		}
		for _, nc := range res.NewNodeClaims {
			onNew += len(nc.Pods)
		}
		s.w.Emit(trace.M{"e": "Sim", "mode": orDashS(st.Method), "names": candNames(cs), "err": short(errS), "panic": panicked,
			"onExisting": onExisting, "onNew": onNew, "claims": len(res.NewNodeClaims), "podErrors": len(res.PodErrors)})
		s.w.Emit(trace.M{"e": "End", "controller": "disruption.simulate", "object": orDashS(st.Value), "err": short(errS), "panic": panicked})
		s.frameSnap("post", "simulate")
		s.w.Rec.Events = nil
	}
	return nil
}

// frameCall: static drift runs no scheduling simulation; its ComputeCommands RESERVES static capacity in
// Cluster.NodePoolState (the C03 protocol) - a deliberate mutation the frame of a simulation does not cover.
func frameCall(method string) string {
	if method == "staticdrift" {
		return "method-reserving"
	}
	return "method"
}

func orDashS(s string) string {
	if s == "" {
		return "-"
	}
	return s
}

// runPass: one real Provisioner.Schedule (the provisioning pass up to, not including, CreateNodeClaims).
func (s *sim) runPass() error {
	s.frameSetCands(nil)
	s.frameSnap("pre", "pass")
	s.w.Emit(trace.M{"e": "Begin", "controller": "provisioner.schedule", "object": "pass"})
	var res pscheduling.Results
	errS, panicked := s.guarded(nil, func() error {
		var e error
		res, e = s.prov.Schedule(world.WithActor(s.ctx, "provisioner"))
		return e
	})
	onExisting, onNew := 0, 0
	for _, en := range res.ExistingNodes {
		onExisting += len(en.Pods)
	}
	for _, nc := range res.NewNodeClaims {
		onNew += len(nc.Pods)
	}
	s.w.Emit(trace.M{"e": "Sim", "mode": "pass", "names": []string{}, "err": short(errS), "panic": panicked,
		"onExisting": onExisting, "onNew": onNew, "claims": len(res.NewNodeClaims), "podErrors": len(res.PodErrors)})
	s.w.Emit(trace.M{"e": "End", "controller": "provisioner.schedule", "object": "pass", "err": short(errS), "panic": panicked})
	s.frameSnap("post", "pass")
	s.w.Rec.Events = nil
	return nil
}

// frameDecoratePod applies PodSpec.Ext (scheduling-relevant extras the C07 alphabet does not need):
//
//	hostPort=<n>            container host port
//	preferZone=<zone>       preferred node affinity (weight 10) — relaxed when it cannot be honoured
//	requireZone=<zone>      required node affinity
//	antiAffinity=<app>      required pod anti-affinity (hostname) against pods labelled app=<app>
//	spreadZone=<app>        ScheduleAnyway zonal topology spread over pods labelled app=<app>
//	badSelector=<x>         nodeSelector on a restricted karpenter.sh label (an invalid pending pod)
//	pvc=<claim>             mounts PersistentVolumeClaim <claim> (objects created by frameBuildStorage)
//	widgets=<n>             requests n example.com/widgets (an extended resource only a capacity NodeOverlay provides)
func (s *sim) frameDecoratePod(pod *corev1.Pod, p *PodSpec) {
	for k, v := range p.Ext {
		switch k {
		case "hostPort":
			n, _ := strconv.Atoi(v)
			pod.Spec.Containers[0].Ports = append(pod.Spec.Containers[0].Ports, corev1.ContainerPort{ContainerPort: int32(n), HostPort: int32(n), Protocol: corev1.ProtocolTCP})
		case "preferZone", "requireZone":
			if pod.Spec.Affinity == nil {
				pod.Spec.Affinity = &corev1.Affinity{}
			}
			if pod.Spec.Affinity.NodeAffinity == nil {
				pod.Spec.Affinity.NodeAffinity = &corev1.NodeAffinity{}
			}
			term := corev1.NodeSelectorTerm{MatchExpressions: []corev1.NodeSelectorRequirement{{Key: corev1.LabelTopologyZone, Operator: corev1.NodeSelectorOpIn, Values: []string{v}}}}
			if k == "preferZone" {
				// two preferences with different weights: relaxation removes the heaviest first (and sorts the slice)
				pod.Spec.Affinity.NodeAffinity.PreferredDuringSchedulingIgnoredDuringExecution = append(pod.Spec.Affinity.NodeAffinity.PreferredDuringSchedulingIgnoredDuringExecution,
					corev1.PreferredSchedulingTerm{Weight: 1, Preference: corev1.NodeSelectorTerm{MatchExpressions: []corev1.NodeSelectorRequirement{{Key: corev1.LabelArchStable, Operator: corev1.NodeSelectorOpIn, Values: []string{"amd64"}}}}},
					corev1.PreferredSchedulingTerm{Weight: 10, Preference: term})
			} else {
				pod.Spec.Affinity.NodeAffinity.RequiredDuringSchedulingIgnoredDuringExecution = &corev1.NodeSelector{NodeSelectorTerms: []corev1.NodeSelectorTerm{term}}
			}
		case "requireZones": // several required OR-terms, tried in this order ("zone-x|zone-a": the first one cannot be met)
			if pod.Spec.Affinity == nil {
				pod.Spec.Affinity = &corev1.Affinity{}
			}
			if pod.Spec.Affinity.NodeAffinity == nil {
				pod.Spec.Affinity.NodeAffinity = &corev1.NodeAffinity{}
			}
			sel := &corev1.NodeSelector{}
			for _, z := range strings.Split(v, "|") {
				sel.NodeSelectorTerms = append(sel.NodeSelectorTerms, corev1.NodeSelectorTerm{MatchExpressions: []corev1.NodeSelectorRequirement{
					{Key: corev1.LabelTopologyZone, Operator: corev1.NodeSelectorOpIn, Values: []string{z}}}})
			}
			pod.Spec.Affinity.NodeAffinity.RequiredDuringSchedulingIgnoredDuringExecution = sel
		case "prefAntiAffinity", "prefAffinity": // preferred pod (anti-)affinity, two terms of different weight
			if pod.Spec.Affinity == nil {
				pod.Spec.Affinity = &corev1.Affinity{}
			}
			terms := []corev1.WeightedPodAffinityTerm{
				{Weight: 1, PodAffinityTerm: corev1.PodAffinityTerm{TopologyKey: corev1.LabelTopologyZone, LabelSelector: &metav1.LabelSelector{MatchLabels: map[string]string{"app": v}}}},
				{Weight: 7, PodAffinityTerm: corev1.PodAffinityTerm{TopologyKey: corev1.LabelHostname, LabelSelector: &metav1.LabelSelector{MatchLabels: map[string]string{"app": v}}}}}
			if k == "prefAntiAffinity" { // (merged with a required term of the same pod: the Ext map is visited in no particular order)
				if pod.Spec.Affinity.PodAntiAffinity == nil {
					pod.Spec.Affinity.PodAntiAffinity = &corev1.PodAntiAffinity{}
				}
				pod.Spec.Affinity.PodAntiAffinity.PreferredDuringSchedulingIgnoredDuringExecution = terms
			} else {
				pod.Spec.Affinity.PodAffinity = &corev1.PodAffinity{PreferredDuringSchedulingIgnoredDuringExecution: terms}
			}
		case "spreadKeys": // DoNotSchedule zonal spread (generous skew) over app=<v> with matchLabelKeys [rev]
			if pod.Labels == nil {
				pod.Labels = map[string]string{}
			}
			if pod.Labels["rev"] == "" {
				pod.Labels["rev"] = "1"
			}
			pod.Spec.TopologySpreadConstraints = append(pod.Spec.TopologySpreadConstraints, corev1.TopologySpreadConstraint{MaxSkew: 6,
				TopologyKey: corev1.LabelTopologyZone, WhenUnsatisfiable: corev1.DoNotSchedule, MatchLabelKeys: []string{"rev"},
				LabelSelector: &metav1.LabelSelector{MatchLabels: map[string]string{"app": v}}})
		case "antiAffinity":
			if pod.Spec.Affinity == nil {
				pod.Spec.Affinity = &corev1.Affinity{}
			}
			if pod.Spec.Affinity.PodAntiAffinity == nil {
				pod.Spec.Affinity.PodAntiAffinity = &corev1.PodAntiAffinity{}
			}
			pod.Spec.Affinity.PodAntiAffinity.RequiredDuringSchedulingIgnoredDuringExecution = []corev1.PodAffinityTerm{{
				TopologyKey: corev1.LabelHostname, LabelSelector: &metav1.LabelSelector{MatchLabels: map[string]string{"app": v}}}}
		case "spreadZone":
			pod.Spec.TopologySpreadConstraints = append(pod.Spec.TopologySpreadConstraints, corev1.TopologySpreadConstraint{MaxSkew: 1,
				TopologyKey: corev1.LabelTopologyZone, WhenUnsatisfiable: corev1.ScheduleAnyway, LabelSelector: &metav1.LabelSelector{MatchLabels: map[string]string{"app": v}}})
		case "badSelector": // a node selector on a label Karpenter restricts: the pod fails Provisioner.Validate and is ignored
			if pod.Spec.NodeSelector == nil {
				pod.Spec.NodeSelector = map[string]string{}
			}
			pod.Spec.NodeSelector["karpenter.sh/custom-"+v] = v
		case "widgets": // requests <v> of the extended resource example.com/widgets (only a capacity NodeOverlay provides it)
			pod.Spec.Containers[0].Resources.Requests[WidgetResource] = resource.MustParse(v)
			pod.Spec.Containers[0].Resources.Limits = corev1.ResourceList{WidgetResource: resource.MustParse(v)}
		case "pvc":
			pod.Spec.Volumes = append(pod.Spec.Volumes, corev1.Volume{Name: "v-" + v, VolumeSource: corev1.VolumeSource{
				PersistentVolumeClaim: &corev1.PersistentVolumeClaimVolumeSource{ClaimName: v}}})
			s.frameStorage(nsOf(p.Namespace), v)
		default:
			panic(fmt.Sprintf("unknown pod ext %q", k))
		}
	}
}

// frameStorage makes sure the StorageClass (CSI provisioner) and the unbound PersistentVolumeClaim exist.
func (s *sim) frameStorage(ns, claim string) {
	scName := "frame-sc"
	if !s.w.Get(&storagev1.StorageClass{ObjectMeta: metav1.ObjectMeta{Name: scName}}) {
		s.w.EnvCreate(&storagev1.StorageClass{ObjectMeta: metav1.ObjectMeta{Name: scName}, Provisioner: "frame.csi.example"})
	}
	if !s.w.Get(&corev1.PersistentVolumeClaim{ObjectMeta: metav1.ObjectMeta{Name: claim, Namespace: ns}}) {
		s.w.EnvCreate(&corev1.PersistentVolumeClaim{ObjectMeta: metav1.ObjectMeta{Name: claim, Namespace: ns},
			Spec: corev1.PersistentVolumeClaimSpec{StorageClassName: &scName}})
	}
}

// frameDecoratePool applies PoolSpec.Ext: preferNoSchedule=<v> puts the taint soft=<v>:PreferNoSchedule on the pool template
// (the scheduler then adds a blanket PreferNoSchedule toleration as the LAST relaxation of a pod that does not fit otherwise).
func (s *sim) frameDecoratePool(np *v1.NodePool, p *PoolSpec) {
	for k, v := range p.Ext {
		switch k {
		case "preferNoSchedule":
			np.Spec.Template.Spec.Taints = append(np.Spec.Template.Spec.Taints, corev1.Taint{Key: "soft", Value: v, Effect: corev1.TaintEffectPreferNoSchedule})
		default:
			panic(fmt.Sprintf("unknown pool ext %q", k))
		}
	}
}

// virtualCache: the provisioner's virtual-pod cache (unexported field, read by reflection).
func (s *sim) virtualCache() *virtualpods.Cache {
	f := reflect.ValueOf(s.prov).Elem().FieldByName("virtualPodCache")
	if !f.IsValid() {
		return nil
	}
	f = reflect.NewAt(f.Type(), unsafe.Pointer(f.UnsafeAddr())).Elem()
	c, _ := f.Interface().(*virtualpods.Cache)
	return c
}

// runCapacityBuffer: step CapacityBuffer{value: name, n: replicas, pod: template} = a PodTemplate built from the pod spec and a
// CapacityBuffer that is ready for provisioning with n replicas (options.capacityBuffer must be on; the cache hydrates from them).
func (s *sim) runCapacityBuffer(st Step) error {
	if st.Pod == nil || st.Value == "" {
		return fmt.Errorf("CapacityBuffer step needs value (name) and pod (template)")
	}
	tp := *st.Pod
	tp.Node = ""
	pod := s.mkPod(&tp)
	ns := nsOf(st.Pod.Namespace)
	s.w.EnvCreate(&corev1.PodTemplate{ObjectMeta: metav1.ObjectMeta{Name: st.Value, Namespace: ns},
		Template: corev1.PodTemplateSpec{ObjectMeta: metav1.ObjectMeta{Labels: pod.Labels}, Spec: pod.Spec}})
	n := int32(st.N)
	if n < 1 {
		n = 1
	}
	cb := &autoscalingv1beta1.CapacityBuffer{ObjectMeta: metav1.ObjectMeta{Name: st.Value, Namespace: ns},
		Spec: autoscalingv1beta1.CapacityBufferSpec{PodTemplateRef: &autoscalingv1beta1.LocalObjectRef{Name: st.Value}, Replicas: &n}}
	s.w.EnvCreate(cb)
	s.w.EnvMutate(cb, "BufferStatus", func() {
		cb.Status.Replicas = &n
		cb.Status.PodTemplateRef = &autoscalingv1beta1.LocalObjectRef{Name: st.Value}
		cb.Status.Conditions = []metav1.Condition{{Type: autoscalingv1beta1.ReadyForProvisioningCondition, Status: metav1.ConditionTrue,
			Reason: "Scenario", LastTransitionTime: metav1.NewTime(s.w.Clock.Now())}}
	})
	if vc := s.virtualCache(); vc != nil { // what the capacity-buffer controller does on a buffer event
		vc.UpdateEntry(cb, corev1.PodTemplateSpec{ObjectMeta: metav1.ObjectMeta{Labels: pod.Labels}, Spec: pod.Spec})
	}
	return nil
}

// ---------------------------------------------------------------- NodeOverlay (feature gate NodeOverlay)
//
// Wired as in the operator (kwok/main.go, controllers.NewControllers): cluster state, provisioner, disruption controller, methods
// and informers get overlay.Decorate(provider, client, store); the nodeoverlay controller gets the UNDECORATED provider and swaps a
// freshly evaluated store in on every reconcile.  The snapshot's catalog section digests the harness provider's OWN instance types
// (world.Provider.Types / TypesForPool), never the decorator's copies.

const WidgetResource = corev1.ResourceName("example.com/widgets")

// frameNewProvider (restart): a fresh store + decorator when the feature gate is on.
func (s *sim) frameNewProvider() cloudprovider.CloudProvider {
	st := s.frame()
	st.cp, st.ovl, st.store = s.w.Prov, nil, nil
	if s.sc.Options.NodeOverlay {
		st.store = nodeoverlay.NewInstanceTypeStore()
		st.cp = overlay.Decorate(s.w.Prov, s.w.Client, st.store)
	}
	return st.cp
}

func (s *sim) frameProvider() cloudprovider.CloudProvider {
	if cp := s.frame().cp; cp != nil {
		return cp
	}
	return s.w.Prov
}

func (s *sim) frameOverlayController() {
	if st := s.frame(); st.store != nil {
		st.ovl = nodeoverlay.NewController(s.w.Clock, s.w.Client, s.w.Prov, st.store, s.cluster)
	}
}

// frameReconcileOverlays = the nodeoverlay controller's reconcile (it evaluates ALL overlays against ALL pools whatever the request).
func (s *sim) frameReconcileOverlays() {
	st := s.frame()
	if st.ovl == nil {
		return
	}
	ctx := world.WithActor(s.ctx, "nodeoverlay")
	for i := 0; i < 5; i++ { // a status patch that conflicts asks for a requeue
		res, err := st.ovl.Reconcile(ctx, reconcile.Request{})
		if err != nil {
			s.w.Emit(trace.M{"e": "Note", "what": "nodeoverlay-error", "kind": "-", "name": "-", "msg": short(err.Error())})
		}
		if !res.Requeue { //nolint:staticcheck
			return
		}
	}
	panic("nodeoverlay controller keeps requeueing: the instance type store is never updated")
}

func frameLabelKey(k string) string {
	switch k {
	case "hostname":
		return corev1.LabelHostname
	case "zone":
		return corev1.LabelTopologyZone
	case "arch":
		return corev1.LabelArchStable
	case "os":
		return corev1.LabelOSStable
	case "ct":
		return v1.CapacityTypeLabelKey
	case "type":
		return corev1.LabelInstanceTypeStable
	}
	return k
}

func (s *sim) mkOverlay(o *OverlaySpec) *v1alpha1.NodeOverlay {
	ov := &v1alpha1.NodeOverlay{ObjectMeta: metav1.ObjectMeta{Name: o.Name}}
	ov.Spec.Requirements = []v1alpha1.NodeSelectorRequirement{}
	for _, r := range o.Requirements {
		ov.Spec.Requirements = append(ov.Spec.Requirements, v1alpha1.NodeSelectorRequirement{Key: r.Key, Operator: corev1.NodeSelectorOperator(r.Op), Values: r.Values})
	}
	if o.Weight > 0 {
		w := int32(o.Weight)
		ov.Spec.Weight = &w
	}
	if o.Price != "" {
		p := o.Price
		ov.Spec.Price = &p
	}
	if o.PriceAdjustment != "" {
		p := o.PriceAdjustment
		ov.Spec.PriceAdjustment = &p
	}
	if len(o.Capacity) > 0 {
		ov.Spec.Capacity = corev1.ResourceList{}
		for k, v := range o.Capacity {
			ov.Spec.Capacity[corev1.ResourceName(k)] = resource.MustParse(v)
		}
	}
	return ov
}

// runOverlay: SetOverlay{overlay} / DeleteOverlay{value}, then what the watch triggers.
func (s *sim) runOverlay(st Step) error {
	if !s.sc.Options.NodeOverlay {
		return fmt.Errorf("%s needs options.nodeOverlay", st.A)
	}
	if st.A == "DeleteOverlay" {
		s.w.EnvRemove(&v1alpha1.NodeOverlay{ObjectMeta: metav1.ObjectMeta{Name: st.Value}}, "OverlayGone")
	} else {
		if st.Overlay == nil {
			return fmt.Errorf("SetOverlay without overlay")
		}
		ov := s.mkOverlay(st.Overlay)
		cur := &v1alpha1.NodeOverlay{ObjectMeta: metav1.ObjectMeta{Name: ov.Name}}
		if s.w.Get(cur) {
			s.w.EnvMutate(cur, "SetOverlay", func() { cur.Spec = ov.Spec; cur.Generation++ })
		} else {
			s.w.EnvCreate(ov)
		}
	}
	s.frameReconcileOverlays()
	return nil
}
