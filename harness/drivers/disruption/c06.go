package disruption

// C06 projection (additive; enabled per scenario by options.project = "c06").
//
// A Cmd / QCmd event then additionally carries
//   sg      the cluster as stored in the API at that instant in the record shapes of
//           spec/SchedulingGuards.tla (the C01 admissibility oracle: universe, pods, nodes, types) -
//           built from the API store and the provider catalog, never from Karpenter's cluster cache
//   claims  the command's replacement NodeClaims in the shape of the scheduling driver's
//           Results.claims (pods, requirement Has-vectors over the universe, instance-type options)
// and the environment step SetOffering{type, zone, ct, price, available} changes one offering of the
// provider catalog (fresh InstanceType objects, as a provider refresh does).

import (
	"sort"

	"github.com/samber/lo"
	appsv1 "k8s.io/api/apps/v1"
	corev1 "k8s.io/api/core/v1"
	metav1 "k8s.io/apimachinery/pkg/apis/meta/v1"

	v1 "sigs.k8s.io/karpenter/pkg/apis/v1"
	"sigs.k8s.io/karpenter/pkg/cloudprovider"
	kdisruption "sigs.k8s.io/karpenter/pkg/controllers/disruption"
	pscheduling "sigs.k8s.io/karpenter/pkg/controllers/provisioning/scheduling"
	"sigs.k8s.io/karpenter/pkg/scheduling"

	"verif/harness/drivers/sched"
	"verif/harness/trace"
	"verif/harness/world"
)

type TaintSpec struct {
	Key    string `json:"key"`
	Value  string `json:"value"`
	Effect string `json:"effect"`
}

type TolSpec struct {
	Key    string `json:"key"`
	Op     string `json:"op"` // Exists | Equal
	Value  string `json:"value"`
	Effect string `json:"effect"` // "" = all
}

func (s *sim) projectC06() bool { return s.sc.Options.Project == "c06" }

// createDaemonSets stores the scenario's DaemonSet objects (before the pods, which refer to them as owners).
func (s *sim) createDaemonSets() {
	s.dsRefs = map[string]metav1.OwnerReference{}
	for _, d := range s.sc.DaemonSets {
		ds := sched.BuildDaemonSet(sched.DS{Name: d.Name, Ns: "default", CPU: d.CPU, Mem: d.MemMi, Sel: d.Sel})
		s.w.EnvCreate(ds)
		s.dsRefs[d.Name] = metav1.OwnerReference{APIVersion: "apps/v1", Kind: "DaemonSet", Name: ds.Name, UID: ds.UID,
			Controller: lo.ToPtr(true), BlockOwnerDeletion: lo.ToPtr(true)}
	}
}

// deliverDaemonSets runs the real DaemonSet informer for every stored DaemonSet (after the pods: the cluster caches one
// pod per DaemonSet).
func (s *sim) deliverDaemonSets() {
	var dss appsv1.DaemonSetList
	s.w.List(&dss)
	for i := range dss.Items {
		if _, err := s.infDS.Reconcile(s.ctx, req(dss.Items[i].Name, dss.Items[i].Namespace)); err != nil {
			s.w.Emit(trace.M{"e": "Note", "what": "informer-error", "kind": "DaemonSet", "name": dss.Items[i].Name, "msg": err.Error()})
		}
	}
}

// sgDaemonSets: the DaemonSets as stored in the API, in the ds record shape of SchedulingGuards.
func (s *sim) sgDaemonSets(u *universe) []trace.M {
	var dss appsv1.DaemonSetList
	s.w.List(&dss)
	out := []trace.M{}
	for i := range dss.Items {
		d := &dss.Items[i]
		cpu, mem := 0, 0
		for _, c := range d.Spec.Template.Spec.Containers {
			cpu += int(c.Resources.Requests.Cpu().MilliValue())
			mem += int(c.Resources.Requests.Memory().Value() >> 20)
		}
		sel := shortLabels(d.Spec.Template.Spec.NodeSelector)
		u.addM(sel)
		tol := []trace.M{}
		for _, t := range d.Spec.Template.Spec.Tolerations {
			tol = append(tol, trace.M{"key": t.Key, "op": string(t.Operator), "value": t.Value, "effect": string(t.Effect)})
		}
		out = append(out, trace.M{"name": d.Name, "ns": d.Namespace, "cpu": cpu, "mem": mem, "sel": sel, "terms": []any{}, "tol": tol,
			"ports": []trace.M{}})
	}
	return out
}

func sgTaints(ts []corev1.Taint) []trace.M {
	out := []trace.M{}
	for _, t := range ts {
		out = append(out, trace.M{"key": t.Key, "value": t.Value, "effect": string(t.Effect)})
	}
	sort.Slice(out, func(i, j int) bool {
		return out[i]["key"].(string)+out[i]["effect"].(string) < out[j]["key"].(string)+out[j]["effect"].(string)
	})
	return out
}

func shortLabels(m map[string]string) map[string]string {
	out := map[string]string{}
	for k, v := range m {
		if s := sched.Short(k); s != "" && s != "host" {
			out[s] = v
		}
	}
	return out
}

type universe struct {
	keys map[string][]string
}

func (u *universe) add(k string, vs ...string) {
	if k == "" {
		return
	}
	cur, ok := u.keys[k]
	if !ok {
		cur = []string{}
	}
	for _, v := range vs {
		if !lo.Contains(cur, v) {
			cur = append(cur, v)
		}
	}
	u.keys[k] = cur
}

func (u *universe) addM(m map[string]string) {
	ks := lo.Keys(m)
	sort.Strings(ks)
	for _, k := range ks {
		u.add(k, m[k])
	}
}

// sgProject: the API store + catalog in SchedulingGuards shapes.
func (s *sim) sgProject() (trace.M, *universe) {
	w := s.w
	u := &universe{keys: map[string][]string{}}
	for _, k := range []string{"zone", "ct", "it", "arch", "os", "pool", "host", "rid"} {
		u.add(k)
	}
	types := []trace.M{}
	for _, it := range w.Prov.Types {
		u.add("it", it.Name)
		labels := map[string]string{}
		for key, r := range it.Requirements {
			sk := sched.Short(key)
			if sk == "" || sk == "it" || sk == "zone" || sk == "ct" {
				continue
			}
			if r.Operator() == corev1.NodeSelectorOpIn && r.Len() == 1 {
				labels[sk] = r.Values()[0]
				u.add(sk, r.Values()[0])
			}
		}
		offs := []trace.M{}
		for _, o := range it.Offerings {
			u.add("zone", o.Zone())
			u.add("ct", o.CapacityType())
			rid := ""
			if o.Requirements.Has(cloudprovider.ReservationIDLabel) {
				rid = o.ReservationID()
				u.add("rid", rid)
			}
			cpuOv, memOv := 0, 0
			if q, ok := o.CapacityOverride[corev1.ResourceCPU]; ok {
				cpuOv = int(q.MilliValue())
			}
			if q, ok := o.CapacityOverride[corev1.ResourceMemory]; ok {
				memOv = int(q.Value() >> 20)
			}
			offs = append(offs, trace.M{"zone": o.Zone(), "ct": o.CapacityType(), "price": price5(o.Price), "available": o.Available,
				"rid": rid, "rcap": o.ReservationCapacity, "cpuOv": cpuOv, "memOv": memOv, "podsOv": 0, "ohCpu": 0, "ohMem": 0})
		}
		ov := it.Overhead.Total()
		types = append(types, trace.M{"name": it.Name, "cpu": int(it.Capacity.Cpu().MilliValue()), "mem": int(it.Capacity.Memory().Value() >> 20),
			"pods": int(it.Capacity.Pods().Value()), "labels": labels, "ovCpu": int(ov.Cpu().MilliValue()), "ovMem": int(ov.Memory().Value() >> 20),
			"offerings": offs})
	}
	var pools v1.NodePoolList
	w.List(&pools)
	for i := range pools.Items {
		u.add("pool", pools.Items[i].Name)
	}
	var claims v1.NodeClaimList
	w.List(&claims)
	claimByPid := map[string]*v1.NodeClaim{}
	for i := range claims.Items {
		if pid := claims.Items[i].Status.ProviderID; pid != "" {
			claimByPid[pid] = &claims.Items[i]
		}
	}
	var nodeList corev1.NodeList
	w.List(&nodeList)
	nodes := []trace.M{}
	for i := range nodeList.Items {
		n := &nodeList.Items[i]
		nc := claimByPid[n.Spec.ProviderID]
		labels := shortLabels(n.Labels)
		u.add("host", n.Name)
		u.addM(labels)
		taints := append([]corev1.Taint{}, n.Spec.Taints...)
		if n.Spec.Unschedulable && !lo.ContainsBy(taints, func(t corev1.Taint) bool { return t.Key == corev1.TaintNodeUnschedulable }) {
			taints = append(taints, corev1.Taint{Key: corev1.TaintNodeUnschedulable, Effect: corev1.TaintEffectNoSchedule})
		}
		nodes = append(nodes, trace.M{"name": n.Name, "pid": dash(n.Spec.ProviderID), "labels": labels, "taints": sgTaints(taints), "csi": []trace.M{},
			"alloc": trace.M{"cpu": int(n.Status.Allocatable.Cpu().MilliValue()), "mem": int(n.Status.Allocatable.Memory().Value() >> 20),
				"pods": int(n.Status.Allocatable.Pods().Value())},
			"marked": false, "deleting": !n.DeletionTimestamp.IsZero() || (nc != nil && !nc.DeletionTimestamp.IsZero()),
			"managed": nc != nil, "initialized": nc == nil || n.Labels[v1.NodeInitializedLabelKey] == "true"})
	}
	var podList corev1.PodList
	w.List(&podList)
	pods := []sched.Pod{}
	for i := range podList.Items {
		p := &podList.Items[i]
		if p.Status.Phase == corev1.PodSucceeded || p.Status.Phase == corev1.PodFailed {
			continue // terminal pods hold no resources and are never rescheduled
		}
		ap := sched.AbsPod(p)
		u.addM(ap.Sel)
		for _, t := range ap.Terms {
			for _, e := range t {
				u.add(e.Key, e.Vals...)
			}
		}
		pods = append(pods, ap)
	}
	ds := s.sgDaemonSets(u)
	unum := map[string][]int{}
	for k := range u.keys {
		u.add(k, "~")
		nums := make([]int, len(u.keys[k]))
		for i := range nums {
			nums[i] = sched.NoInt
		}
		unum[k] = nums
	}
	return trace.M{"universe": u.keys, "unum": unum, "pods": pods, "nodes": nodes, "types": types,
		"ds": ds, "pvcs": []trace.M{}, "pvs": []trace.M{}, "scs": []trace.M{}}, u
}

// sgReqs logs requirements for EVERY universe key (same record as the scheduling driver's ReqRec).
func sgReqs(reqs scheduling.Requirements, u *universe) (map[string]sched.ReqRec, []string) {
	out := map[string]sched.ReqRec{}
	for k, vals := range u.keys {
		real := sched.Key(k)
		rec := sched.ReqRec{Op: "-", Vals: []string{}, Has: make([]bool, len(vals)), Absent: true, Min: -1}
		if reqs.Has(real) {
			r := reqs.Get(real)
			rec.Defined = true
			rec.Op = string(r.Operator())
			rec.Vals = append([]string{}, r.Values()...)
			sort.Strings(rec.Vals)
			if len(rec.Vals) > 12 {
				rec.Vals = rec.Vals[:12]
			}
			for i, v := range vals {
				rec.Has[i] = r.Has(v)
			}
			rec.Absent = r.Operator() == corev1.NodeSelectorOpNotIn || r.Operator() == corev1.NodeSelectorOpDoesNotExist
			if r.MinValues != nil {
				rec.Min = *r.MinValues
			}
		} else {
			for i := range vals {
				rec.Has[i] = true
			}
		}
		out[k] = rec
	}
	other := []string{}
	for k := range reqs {
		if sk := sched.Short(k); sk == "" || u.keys[sk] == nil {
			other = append(other, k)
		}
	}
	sort.Strings(other)
	return out, other
}

func sgClaim(idx int, c *pscheduling.NodeClaim, u *universe) trace.M {
	reqs, other := sgReqs(c.Requirements, u)
	pods := []string{}
	for _, p := range c.Pods {
		pods = append(pods, podKey(p))
	}
	its := lo.Map(c.InstanceTypeOptions, func(it *cloudprovider.InstanceType, _ int) string { return it.Name })
	reserved := []string{}
	if r := c.Requirements.Get(v1.CapacityTypeLabelKey); c.Requirements.Has(cloudprovider.ReservationIDLabel) &&
		r.Operator() == corev1.NodeSelectorOpIn && r.Len() == 1 && r.Has(v1.CapacityTypeReserved) {
		reserved = append(reserved, c.Requirements.Get(cloudprovider.ReservationIDLabel).Values()...)
		sort.Strings(reserved)
	}
	// minValues bookkeeping for the spot-to-spot truncation rule: for every requirement with minValues the
	// values each option contributes, in option order
	minKeys := []trace.M{}
	for key, r := range c.Requirements {
		if r.MinValues == nil {
			continue
		}
		per := [][]string{}
		for _, it := range c.InstanceTypeOptions {
			vs := append([]string{}, it.Requirements.Get(key).Values()...)
			sort.Strings(vs)
			per = append(per, vs)
		}
		minKeys = append(minKeys, trace.M{"key": key, "min": *r.MinValues, "values": per})
	}
	sort.Slice(minKeys, func(i, j int) bool { return minKeys[i]["key"].(string) < minKeys[j]["key"].(string) })
	return trace.M{"idx": idx, "pool": dash(c.NodePoolName), "pods": pods, "reqs": reqs, "otherKeys": other, "its": its,
		"reserved": reserved, "taints": sgTaints(c.Spec.Taints), "minKeys": minKeys}
}

// c06Extend adds the C06 projection to a projected command.
func (s *sim) c06Extend(ev trace.M, cmd *kdisruption.Command) {
	if !s.projectC06() {
		return
	}
	sg, u := s.sgProject()
	claims := []trace.M{}
	for i, r := range cmd.Replacements {
		claims = append(claims, sgClaim(i, r.NodeClaim, u))
	}
	ev["sg"] = sg
	ev["claims"] = claims
}

// setOffering replaces the catalog by one in which a single offering changed (price in 1/1000, -1 = keep).
func (s *sim) setOffering(typ, zone, ct string, price int, available bool) {
	cat := s.sc.Catalog
	if len(cat) == 0 {
		return
	}
	for i := range cat {
		if cat[i].Name != typ {
			continue
		}
		for j := range cat[i].Offerings {
			o := &cat[i].Offerings[j]
			if o.Zone == zone && o.CT == ct {
				if price >= 0 {
					o.Price = price
				}
				o.Available = available
			}
		}
	}
	s.w.Prov.Types = s.catalog()
	s.types = map[string]*cloudprovider.InstanceType{}
	for _, it := range s.w.Prov.Types {
		s.types[it.Name] = it
	}
	s.w.Emit(trace.M{"e": "Env", "what": "SetOffering", "kind": "Catalog", "name": typ + "/" + zone + "/" + ct,
		"post": trace.M{"exists": true, "price": price, "available": available}})
}

var _ = world.Epoch
