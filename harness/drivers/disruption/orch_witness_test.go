package disruption

// Minimal reproduction of known finding F-C08-1 against the real code (no TLC involved):
//
//	cd harness && GOFLAGS=-mod=mod GOPROXY=off go test -tags verif -count=1 -run TestC08TimeoutAfterDelete ./drivers/disruption/
//
// One candidate, one replacement.  The replacement reports Initialized 601 s after StartCommand (the queue's retry
// window is 600 s).  The next Queue.Reconcile deletes the candidate NodeClaim and, in the same pass, rolls the command
// back (untaint patch, DisruptionReason cleared, command reported failed).  The test PASSES when it observes that
// behaviour (it documents the defect); with repo-patches/fix-C08-1.patch applied the pass succeeds instead and the test
// is SKIPPED with a message, which is the signal to retire the known finding.

import (
	"bufio"
	"encoding/json"
	"os"
	"path/filepath"
	"testing"

	"verif/harness/trace"
)

func TestC08TimeoutAfterDelete(t *testing.T) {
	scJSON := `{"name":"witness","options":{},"t0":1000,
	 "pools":[{"name":"p","static":false,"replicas":1,"policy":"WhenEmptyOrUnderutilized","consolidateAfter":30,"budgets":[{"nodes":"100%"}],"tgp":-1,"absent":false}],
	 "nodes":[{"name":"n1","pool":"p","type":"medium","initializedAt":100,"lastPodEvent":100,"createdAt":50}],
	 "pods":[{"name":"p-n1","ns":"default","node":"n1","cpu":500,"memMi":64,"owner":"replicaset","startedAt":100}],
	 "pdbs":[],"steps":[],
	 "osteps":[{"a":"BuildCmd","cmd":"A","nodes":["n1"],"nrepl":1},{"a":"StartCmd","cmd":"A"},{"a":"QueueRec","cmd":"A"},
	           {"a":"Tick","d":601},{"a":"ReplInit","cmd":"A","i":0},{"a":"QueueRec","cmd":"A"}]}`
	var sc OScenario
	if err := json.Unmarshal([]byte(scJSON), &sc); err != nil {
		t.Fatal(err)
	}
	dir := t.TempDir()
	tw, err := trace.NewWriter(dir, "w", 1)
	if err != nil {
		t.Fatal(err)
	}
	if err := RunOrchOne(&sc, tw); err != nil {
		t.Fatal(err)
	}
	tw.Close()
	f, err := os.Open(filepath.Join(dir, "w-00.ndjson"))
	if err != nil {
		t.Fatal(err)
	}
	defer f.Close()
	pass, deleted, untainted, outcome := 0, false, false, ""
	r := bufio.NewScanner(f)
	r.Buffer(make([]byte, 1<<20), 1<<26)
	for r.Scan() {
		var ev map[string]any
		if err := json.Unmarshal(r.Bytes(), &ev); err != nil {
			t.Fatal(err)
		}
		switch {
		case ev["e"] == "Begin" && ev["controller"] == "disruption.queue":
			pass++
		case pass == 2 && ev["e"] == "Api" && ev["actor"] == "disruption.queue" && ev["err"] == "-":
			if ev["verb"] == "delete" && ev["kind"] == "NodeClaim" && ev["name"] == "nc-n1" {
				deleted = true
			}
			if ev["verb"] == "patch" && ev["kind"] == "Node" && ev["name"] == "n1" && deleted {
				untainted = true
			}
		case pass == 2 && ev["e"] == "End" && ev["controller"] == "disruption.queue":
			outcome, _ = ev["outcome"].(string)
		}
	}
	t.Logf("second queue pass at T+601s: candidate deleted=%v, rolled back (untaint after the delete)=%v, outcome=%s", deleted, untainted, outcome)
	if !(deleted && untainted && outcome == "failed") {
		t.Skipf("F-C08-1 does not reproduce on this tree (deleted=%v untainted=%v outcome=%s): fixed - retire the known finding", deleted, untainted, outcome)
	}
}
