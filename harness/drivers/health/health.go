// Package health binds Health.tla (C20) to pkg/state/nodepoolhealth.
package health

import (
	"encoding/json"
	"flag"
	"fmt"
	"os"

	"k8s.io/apimachinery/pkg/types"

	"sigs.k8s.io/karpenter/pkg/state/nodepoolhealth"

	"verif/harness/reg"
	"verif/harness/trace"
)

func init() { reg.Register("health-unit", Unit) }

func statusName(s nodepoolhealth.Status) string {
	switch s {
	case nodepoolhealth.StatusHealthy:
		return "Healthy"
	case nodepoolhealth.StatusUnhealthy:
		return "Unhealthy"
	}
	return "Unknown"
}

// Unit replays TLC-generated behaviours (lists of action names) on the real nodepoolhealth.State:
// before every step both what-if evaluations are recorded, after it Status().
func Unit(args []string) error {
	fs := flag.NewFlagSet("health-unit", flag.ContinueOnError)
	in := fs.String("in", "", "behaviours JSON (list of lists of action names)")
	out := fs.String("out", "traces", "output directory")
	shards := fs.Int("shards", 4, "trace shards")
	if err := fs.Parse(args); err != nil {
		return err
	}
	raw, err := os.ReadFile(*in)
	if err != nil {
		return err
	}
	var behs [][]string
	if err := json.Unmarshal(raw, &behs); err != nil {
		return err
	}
	w, err := trace.NewWriter(*out, "health-unit", *shards)
	if err != nil {
		return err
	}
	uid := types.UID("pool-1")
	for _, b := range behs {
		w.Begin(trace.M{"size": nodepoolhealth.BufferSize, "level": "unit"})
		st := nodepoolhealth.NewState()
		for _, a := range b {
			dryT := statusName(st.DryRun(uid, true).Status())
			dryF := statusName(st.DryRun(uid, false).Status())
			switch a {
			case "S":
				st.Update(uid, true)
			case "F":
				st.Update(uid, false)
			case "Reset", "ResetNC":
				st.SetStatus(uid, nodepoolhealth.StatusUnknown)
			case "Restart":
				st = nodepoolhealth.NewState()
			case "HydrateT":
				st.SetStatus(uid, nodepoolhealth.StatusHealthy)
			case "HydrateF":
				st.SetStatus(uid, nodepoolhealth.StatusUnhealthy)
			default:
				return fmt.Errorf("unknown action %q", a)
			}
			w.Emit(trace.M{"e": "Op", "op": a, "dryT": dryT, "dryF": dryF,
				"status": statusName(st.Status(uid)), "cond": "-"})
		}
	}
	paths := w.Close()
	sum, _ := json.Marshal(trace.M{"traces": w.N, "lines": w.Lines, "files": paths})
	fmt.Println(string(sum))
	return nil
}
