package health

import (
	"context"
	"encoding/json"
	"flag"
	"fmt"
	"os"
	"time"

	corev1 "k8s.io/api/core/v1"
	metav1 "k8s.io/apimachinery/pkg/apis/meta/v1"

	v1 "sigs.k8s.io/karpenter/pkg/apis/v1"
	nclifecycle "sigs.k8s.io/karpenter/pkg/controllers/nodeclaim/lifecycle"
	"sigs.k8s.io/karpenter/pkg/controllers/nodepool/registrationhealth"
	"sigs.k8s.io/karpenter/pkg/state/nodepoolhealth"

	"verif/harness/reg"
	"verif/harness/trace"
	"verif/harness/world"
)

func init() { reg.Register("health-e2e", E2E) }

// E2E replays behaviours of Health.tla end-to-end: every outcome is produced by a NodeClaim of the
// pool going through the real nodeclaim lifecycle controller (registration => success; launch or
// registration timeout in the liveness sub-reconciler => failure), resets and hydration by the real
// nodepool registrationhealth controller, restarts by re-instantiating both with a fresh
// nodepoolhealth.State.  After every step the NodeRegistrationHealthy condition stored on the
// NodePool is recorded next to the what-if results taken before the step and Status() after it.
type e2e struct {
	w      *world.World
	ctx    context.Context
	ctrl   *nclifecycle.Controller
	health *registrationhealth.Controller
	np     *nodepoolhealth.State
	pool   *v1.NodePool
	n      int
}

const e2ePool = "pool-1"

func (s *e2e) restart() {
	s.np = nodepoolhealth.NewState()
	s.ctrl = nclifecycle.NewController(s.w.Clock, s.w.Client, s.w.Prov, s.w.Rec, s.np, nil)
	s.health = registrationhealth.NewController(s.w.Clock, s.w.Client, s.w.Prov, s.np)
}

func (s *e2e) rec(name string) error {
	nc := &v1.NodeClaim{ObjectMeta: metav1.ObjectMeta{Name: name}}
	if !s.w.Get(nc) {
		return nil
	}
	_, err := s.ctrl.Reconcile(s.ctx, nc)
	return err
}

func (s *e2e) healthRec() error {
	p := &v1.NodePool{ObjectMeta: metav1.ObjectMeta{Name: e2ePool}}
	if !s.w.Get(p) {
		return fmt.Errorf("pool missing")
	}
	_, err := s.health.Reconcile(s.ctx, p)
	return err
}

func (s *e2e) cond() string {
	p := &v1.NodePool{ObjectMeta: metav1.ObjectMeta{Name: e2ePool}}
	if !s.w.Get(p) {
		return "Absent"
	}
	for _, c := range p.Status.Conditions {
		if c.Type == v1.ConditionTypeNodeRegistrationHealthy {
			return string(c.Status)
		}
	}
	return "Unknown" // an absent condition reads as Unknown
}

func (s *e2e) newClaim() string {
	s.n++
	name := fmt.Sprintf("nc-%d", s.n)
	p := &v1.NodePool{ObjectMeta: metav1.ObjectMeta{Name: e2ePool}}
	s.w.Get(p)
	s.w.EnvCreate(world.NodeClaim(name, p))
	return name
}

// success: the claim launches, its node appears and registers.
func (s *e2e) success() error {
	name := s.newClaim()
	for i := 0; i < 2; i++ { // finalizer, launch
		if err := s.rec(name); err != nil {
			return fmt.Errorf("launch reconcile: %w", err)
		}
	}
	var inst *world.Instance
	for _, i := range s.w.Prov.Instances {
		if i.Claim == name && i.State == "running" {
			inst = i
		}
	}
	if inst == nil {
		return fmt.Errorf("no instance for %s", name)
	}
	n := world.NodeFor(inst.NodeClaim, "node-"+name, true)
	world.SetNodeReady(n, true, s.w.Clock.Now())
	s.w.EnvCreate(n)
	for i := 0; i < 2; i++ {
		if err := s.rec(name); err != nil {
			return fmt.Errorf("registration reconcile: %w", err)
		}
	}
	return nil
}

// failure: variant 0 = the provider keeps failing until the launch timeout; variant 1 = launched but
// the node never registers within the registration timeout.
func (s *e2e) failure(variant int, fault bool) error {
	name := s.newClaim()
	if fault {
		// the first NodePool status patch of this failure hits a conflict (another NodeClaim of the pool
		// patched the pool concurrently); the reconcile is requeued and retried - the outcome must still be
		// recorded exactly once
		s.w.AddFault(world.Fault{Actor: "nodeclaim.lifecycle", Verb: "patch", Kind: "NodePool", Sub: "status", Nth: 1, Err: "Conflict"})
		defer s.w.ClearFaults()
	}
	if variant == 0 {
		s.w.Prov.CreateOutcomes = []string{"err", "err", "err", "err"}
		_ = s.rec(name)
		_ = s.rec(name)
		s.w.Clock.Step(nclifecycle.LaunchTimeout + time.Second)
		_ = s.rec(name)
		if fault {
			_ = s.rec(name)
		}
		s.w.Prov.CreateOutcomes = nil
	} else {
		for i := 0; i < 2; i++ {
			if err := s.rec(name); err != nil {
				return fmt.Errorf("launch reconcile: %w", err)
			}
		}
		s.w.Clock.Step(15*time.Minute + time.Second)
		if err := s.rec(name); err != nil {
			return fmt.Errorf("liveness reconcile: %w", err)
		}
		if fault {
			_ = s.rec(name)
		}
	}
	// the timed-out claim is deleting now; let the finalizer path run so that the instance goes away
	s.w.Prov.InstantTerminate = true
	for i := 0; i < 3; i++ {
		_ = s.rec(name)
	}
	return nil
}

func E2E(args []string) error {
	fs := flag.NewFlagSet("health-e2e", flag.ContinueOnError)
	in := fs.String("in", "", "behaviours JSON (list of lists of action names)")
	out := fs.String("out", "traces", "output directory")
	shards := fs.Int("shards", 4, "trace shards")
	if err := fs.Parse(args); err != nil {
		return err
	}
	raw, err := os.ReadFile(*in)
	if err != nil {
		return err
	}
	var behs [][]string
	if err := json.Unmarshal(raw, &behs); err != nil {
		return err
	}
	tw, err := trace.NewWriter(*out, "health-e2e", *shards)
	if err != nil {
		return err
	}
	for bi, b := range behs {
		w := world.New()
		w.Prov.Types = world.DefaultCatalog()
		s := &e2e{w: w, ctx: world.Ctx()}
		tw.Begin(trace.M{"size": nodepoolhealth.BufferSize, "level": "e2e"})
		w.EnvCreate(world.NodeClass())
		w.EnvCreate(world.NodePool(e2ePool))
		s.restart()
		// the pool's creation triggers the registrationhealth controller once: condition Unknown,
		// nodeclass generation observed
		if err := s.healthRec(); err != nil {
			return fmt.Errorf("behaviour %d: initial health reconcile: %w", bi, err)
		}
		uid := func() string {
			p := &v1.NodePool{ObjectMeta: metav1.ObjectMeta{Name: e2ePool}}
			w.Get(p)
			s.pool = p
			return string(p.UID)
		}()
		_ = uid
		nf := 0
		for si, a := range b {
			dryT := statusName(s.np.DryRun(s.pool.UID, true).Status())
			dryF := statusName(s.np.DryRun(s.pool.UID, false).Status())
			var err error
			switch a {
			case "S":
				err = s.success()
			case "F":
				err = s.failure(nf%2, nf%3 == 2)
				nf++
			case "Reset":
				p := &v1.NodePool{ObjectMeta: metav1.ObjectMeta{Name: e2ePool}}
				w.EnvMutate(p, "EditPool", func() {
					p.Generation++
					p.Spec.Template.Labels = map[string]string{"edit": fmt.Sprint(p.Generation)}
				})
				err = s.healthRec()
			case "ResetNC":
				nc := world.NodeClass()
				w.EnvMutate(nc, "EditNodeClass", func() { nc.Generation++ })
				err = s.healthRec()
			case "Restart":
				s.restart()
			case "HydrateT", "HydrateF":
				err = s.healthRec()
			default:
				return fmt.Errorf("unknown action %q", a)
			}
			if err != nil {
				return fmt.Errorf("behaviour %d step %d (%s): %w", bi, si, a, err)
			}
			tw.Emit(trace.M{"e": "Op", "op": a, "dryT": dryT, "dryF": dryF,
				"status": statusName(s.np.Status(s.pool.UID)), "cond": s.cond()})
		}
	}
	paths := tw.Close()
	sum, _ := json.Marshal(trace.M{"traces": tw.N, "lines": tw.Lines, "files": paths})
	fmt.Println(string(sum))
	return nil
}

var _ = corev1.NodeReady
