// Package reapers binds Reapers.tla (C16) to the real forceful reapers: nodeclaim expiration,
// nodeclaim garbage collection, node repair (node.health) and the lifecycle controller's liveness
// check, all running against the harness world.  The driver only records.
package reapers

import (
	"context"
	"encoding/json"
	"flag"
	"fmt"
	"os"
	"sync"
	"time"

	"github.com/awslabs/operatorpkg/status"
	corev1 "k8s.io/api/core/v1"
	metav1 "k8s.io/apimachinery/pkg/apis/meta/v1"
	"sigs.k8s.io/controller-runtime/pkg/client"
	"sigs.k8s.io/controller-runtime/pkg/client/interceptor"

	v1 "sigs.k8s.io/karpenter/pkg/apis/v1"
	"sigs.k8s.io/karpenter/pkg/cloudprovider"
	nodehealth "sigs.k8s.io/karpenter/pkg/controllers/node/health"
	"sigs.k8s.io/karpenter/pkg/controllers/nodeclaim/expiration"
	"sigs.k8s.io/karpenter/pkg/controllers/nodeclaim/garbagecollection"
	nclifecycle "sigs.k8s.io/karpenter/pkg/controllers/nodeclaim/lifecycle"
	"sigs.k8s.io/karpenter/pkg/operator/injection"
	"sigs.k8s.io/karpenter/pkg/state/nodepoolhealth"

	"verif/harness/reg"
	"verif/harness/trace"
	"verif/harness/world"
)

func init() { reg.Register("reapers", Run) }

const (
	actorExpiration = "nodeclaim.expiration"
	actorGC         = "nodeclaim.garbagecollection"
	actorHealth     = "node.health"
	actorLifecycle  = "nodeclaim.lifecycle"
)

type Policy struct {
	Type       string `json:"type"`
	Status     string `json:"status"`
	Toleration int    `json:"toleration"` // seconds
}

// FaultSpec addresses one API call of a reconcile (verb, kind, sub, nth occurrence; nth 0 = every).
type FaultSpec struct {
	Verb string `json:"verb"`
	Kind string `json:"kind"`
	Sub  string `json:"sub"`
	Nth  int    `json:"nth"`
	Err  string `json:"err"`
}

type Step struct {
	A string `json:"a"`
	// object construction / environment
	Name        string            `json:"name"`
	Pool        string            `json:"pool"`
	Pid         string            `json:"pid"`
	ExpireAfter int               `json:"expireAfter"` // seconds, -1 = Never
	Launched    string            `json:"launched"`    // condition status, "" = absent
	Registered  string            `json:"registered"`
	NoFinalizer bool              `json:"noFinalizer"`
	Instance    bool              `json:"instance"` // the provider has a running instance with this pid
	Unmanaged   bool              `json:"unmanaged"`
	Ready       string            `json:"ready"` // "" = no Ready condition
	Conds       map[string]string `json:"conds"`
	Type        string            `json:"type"`
	Status      string            `json:"status"`
	To          int               `json:"to"`
	// reconciles
	Faults     []FaultSpec `json:"faults"`
	Prov       string      `json:"prov"`       // provider List (Gc) / Create (Live) outcome: ok|err|...
	LookupFail []string    `json:"lookupFail"` // Gc: provider ids whose Node lookup fails ("*" = all)
	Stale      int         `json:"stale"`      // reconcile with the object as last handed to this controller
}

type Cfg struct {
	Policies      []Policy `json:"policies"`
	LaunchTimeout int      `json:"launchTimeout"` // seconds; 0 = Karpenter's default
}

type Behaviour struct {
	Cfg   Cfg    `json:"cfg"`
	Steps []Step `json:"steps"`
	Tag   string `json:"tag"`
}

type sim struct {
	w      *world.World
	ctx    context.Context
	kube   client.Client // the world's client behind the node-lookup attribution wrapper
	exp    *expiration.Controller
	gc     *garbagecollection.Controller
	health *nodehealth.Controller
	lc     *nclifecycle.Controller
	pools  map[string]*v1.NodePool
	views  map[string]client.Object // last object handed to a controller (stale reconciles)

	mu         sync.Mutex
	lookupFail map[string]bool
	stepN      int // index of the step being executed (logged on Begin so that traces align with behaviours)
}

// wrap attributes every Node lookup by provider id (the garbage collector's readiness check): the choke
// point logs list calls without their field selector, and the collector looks its candidates up from
// parallel workers, so the lookup's provider id is recorded here, and a fault can be addressed to it.
func (s *sim) wrap(c client.Client) client.Client {
	return interceptor.NewClient(c.(client.WithWatch), interceptor.Funcs{
		List: func(ctx context.Context, cl client.WithWatch, list client.ObjectList, opts ...client.ListOption) error {
			if _, ok := list.(*corev1.NodeList); !ok {
				return cl.List(ctx, list, opts...)
			}
			lo := &client.ListOptions{}
			lo.ApplyOptions(opts)
			if lo.FieldSelector == nil {
				return cl.List(ctx, list, opts...)
			}
			pid, ok := lo.FieldSelector.RequiresExactMatch("spec.providerID")
			if !ok {
				return cl.List(ctx, list, opts...)
			}
			act := injection.GetControllerName(ctx)
			s.mu.Lock()
			fail := s.lookupFail[pid] || s.lookupFail["*"]
			s.mu.Unlock()
			if fail && act == actorGC {
				s.w.Emit(trace.M{"e": "Read", "actor": act, "verb": "list", "kind": "Node", "name": pid, "err": "Server", "injected": true})
				return fmt.Errorf("injected node lookup failure for %s", pid)
			}
			err := cl.List(ctx, list, opts...)
			if act == actorGC {
				e := "-"
				if err != nil {
					e = "Server"
				}
				s.w.Emit(trace.M{"e": "Read", "actor": act, "verb": "list", "kind": "Node", "name": pid, "err": e, "injected": false})
			}
			return err
		},
	})
}

func (s *sim) restart() {
	w := s.w
	s.exp = expiration.NewController(w.Clock, s.kube, w.Prov)
	s.gc = garbagecollection.NewController(w.Clock, s.kube, w.Prov)
	s.health = nodehealth.NewController(s.kube, w.Prov, w.Clock, w.Rec)
	s.lc = nclifecycle.NewController(w.Clock, s.kube, w.Prov, w.Rec, nodepoolhealth.NewState(), nil)
	s.views = map[string]client.Object{}
}

func (s *sim) skip(a, why string) { s.w.Emit(trace.M{"e": "Skip", "a": a, "why": why}) }

func (s *sim) arm(actor string, st Step) {
	s.w.ClearFaults()
	for _, f := range st.Faults {
		sub := f.Sub
		if sub == "-" {
			sub = ""
		}
		s.w.AddFault(world.Fault{Actor: actor, Verb: f.Verb, Kind: f.Kind, Sub: sub, Nth: f.Nth, Err: f.Err})
	}
	s.mu.Lock()
	s.lookupFail = map[string]bool{}
	for _, p := range st.LookupFail {
		s.lookupFail[p] = true
	}
	s.mu.Unlock()
}

func (s *sim) disarm() {
	s.w.ClearFaults()
	s.w.Prov.ListOutcomes, s.w.Prov.CreateOutcomes = nil, nil
	s.mu.Lock()
	s.lookupFail = map[string]bool{}
	s.mu.Unlock()
}

// run brackets one real reconcile with Begin/End, recovering panics like controller-runtime does.
func (s *sim) run(controller, object string, stale int, f func() error) {
	s.w.Emit(trace.M{"e": "Begin", "controller": controller, "object": object, "stale": stale, "step": s.stepN})
	errS, panicked := "-", false
	func() {
		defer func() {
			if r := recover(); r != nil {
				panicked = true
				errS = fmt.Sprint(r)
			}
		}()
		if err := f(); err != nil {
			errS = "error"
		}
	}()
	s.disarm()
	s.w.Emit(trace.M{"e": "End", "controller": controller, "object": object, "err": errS, "panic": panicked})
}

// fetch returns the object to hand to a reconcile: the stored one, or (stale) the copy this controller got last time.
func (s *sim) fetch(controller string, obj client.Object, stale int) (client.Object, bool) {
	key := controller + "/" + obj.GetName()
	if stale > 0 {
		if v, ok := s.views[key]; ok {
			return v.DeepCopyObject().(client.Object), true
		}
	}
	if !s.w.Get(obj) {
		return nil, false
	}
	s.views[key] = obj.DeepCopyObject().(client.Object)
	return obj, true
}

func cond(t, st string, at time.Time) status.Condition {
	return status.Condition{Type: t, Status: metav1.ConditionStatus(st), LastTransitionTime: metav1.NewTime(at), Reason: t, Message: ""}
}

func setNodeCond(n *corev1.Node, t, st string, at time.Time) {
	for i := range n.Status.Conditions {
		if string(n.Status.Conditions[i].Type) == t {
			if st == "" || st == "Absent" {
				n.Status.Conditions = append(n.Status.Conditions[:i], n.Status.Conditions[i+1:]...)
				return
			}
			if string(n.Status.Conditions[i].Status) != st {
				n.Status.Conditions[i].Status = corev1.ConditionStatus(st)
				n.Status.Conditions[i].LastTransitionTime = metav1.NewTime(at)
			}
			return
		}
	}
	if st == "" || st == "Absent" {
		return
	}
	n.Status.Conditions = append(n.Status.Conditions, corev1.NodeCondition{Type: corev1.NodeConditionType(t),
		Status: corev1.ConditionStatus(st), LastTransitionTime: metav1.NewTime(at)})
}

func (s *sim) step(st Step) error {
	w := s.w
	now := w.Clock.Now()
	switch st.A {
	case "Pool":
		p := world.NodePool(st.Name)
		w.EnvCreate(p)
		s.pools[st.Name] = p
	case "Claim":
		nc := world.NodeClaim(st.Name, s.pools[st.Pool])
		if st.ExpireAfter >= 0 {
			nc.Spec.ExpireAfter = v1.MustParseNillableDuration(fmt.Sprintf("%ds", st.ExpireAfter))
		}
		if st.Unmanaged {
			nc.Spec.NodeClassRef = &v1.NodeClassReference{Group: "other.sh", Kind: "OtherNodeClass", Name: "x"}
		}
		if !st.NoFinalizer {
			nc.Finalizers = []string{v1.TerminationFinalizer}
		}
		if st.Launched != "" {
			nc.Status.Conditions = append(nc.Status.Conditions, cond(v1.ConditionTypeLaunched, st.Launched, now))
		}
		if st.Registered != "" {
			nc.Status.Conditions = append(nc.Status.Conditions, cond(v1.ConditionTypeRegistered, st.Registered, now))
		}
		if st.Pid != "" {
			nc.Status.ProviderID = st.Pid
		}
		nc.Status.Capacity = world.RL(2000, 4096)
		nc.Status.Allocatable = world.RL(2000, 4096)
		w.EnvCreate(nc)
		if st.Instance && st.Pid != "" {
			s.addInstance(st.Pid, nc)
		}
	case "Node":
		n := &corev1.Node{
			ObjectMeta: metav1.ObjectMeta{Name: st.Name, Labels: map[string]string{corev1.LabelHostname: st.Name}},
			Spec:       corev1.NodeSpec{ProviderID: st.Pid},
			Status:     corev1.NodeStatus{Capacity: world.RL(2000, 4096), Allocatable: world.RL(2000, 4096)},
		}
		if st.Pool != "" {
			n.Labels[v1.NodePoolLabelKey] = st.Pool
			n.Labels[v1.NodeRegisteredLabelKey] = "true"
		}
		if st.Ready != "" {
			setNodeCond(n, string(corev1.NodeReady), st.Ready, now)
		}
		for t, v := range st.Conds {
			setNodeCond(n, t, v, now)
		}
		w.EnvCreate(n)
	case "Tick":
		w.Clock.SetTo(world.Epoch.Add(time.Duration(st.To) * time.Second))
	case "InstanceGone":
		if !w.Prov.EnvInstanceGone(st.Pid) {
			s.skip(st.A, "no-instance")
		}
	case "SetCond":
		n := &corev1.Node{ObjectMeta: metav1.ObjectMeta{Name: st.Name}}
		if !w.EnvMutate(n, "SetCond-"+st.Type, func() { setNodeCond(n, st.Type, st.Status, now) }) {
			s.skip(st.A, "no-node")
		}
	case "NodeGone":
		if !w.EnvRemove(&corev1.Node{ObjectMeta: metav1.ObjectMeta{Name: st.Name}}, "NodeGone") {
			s.skip(st.A, "no-node")
		}
	case "UserDelete":
		nc := &v1.NodeClaim{ObjectMeta: metav1.ObjectMeta{Name: st.Name}}
		if w.Get(nc) {
			_ = w.Client.Delete(world.WithActor(context.Background(), "env"), nc)
		} else {
			s.skip(st.A, "no-claim")
		}
	case "SetClaim": // launch / registration progress made by the lifecycle controller + kubelet, abstracted
		nc := &v1.NodeClaim{ObjectMeta: metav1.ObjectMeta{Name: st.Name}}
		if !w.EnvMutate(nc, "SetClaim", func() {
			set := func(t, v string) {
				if v == "" {
					return
				}
				for i := range nc.Status.Conditions {
					if nc.Status.Conditions[i].Type == t {
						if string(nc.Status.Conditions[i].Status) != v {
							nc.Status.Conditions[i].Status = metav1.ConditionStatus(v)
							nc.Status.Conditions[i].LastTransitionTime = metav1.NewTime(now)
						}
						return
					}
				}
				nc.Status.Conditions = append(nc.Status.Conditions, cond(t, v, now))
			}
			set(v1.ConditionTypeLaunched, st.Launched)
			set(v1.ConditionTypeRegistered, st.Registered)
			if st.Pid != "" {
				nc.Status.ProviderID = st.Pid
			}
		}) {
			s.skip(st.A, "no-claim")
			return nil
		}
		if st.Instance && st.Pid != "" {
			_ = w.Get(nc)
			s.addInstance(st.Pid, nc)
		}
	case "Restart":
		s.restart()
		w.Emit(trace.M{"e": "Restart"})
	case "Expire":
		obj, ok := s.fetch(actorExpiration, &v1.NodeClaim{ObjectMeta: metav1.ObjectMeta{Name: st.Name}}, st.Stale)
		if !ok {
			s.skip(st.A, "no-claim")
			return nil
		}
		s.arm(actorExpiration, st)
		s.run(actorExpiration, st.Name, st.Stale, func() error { _, err := s.exp.Reconcile(s.ctx, obj.(*v1.NodeClaim)); return err })
	case "Gc":
		s.arm(actorGC, st)
		if st.Prov == "err" {
			w.Prov.ListOutcomes = []string{"err"}
		}
		s.run(actorGC, "-", 0, func() error { _, err := s.gc.Reconcile(s.ctx); return err })
	case "Repair":
		obj, ok := s.fetch(actorHealth, &corev1.Node{ObjectMeta: metav1.ObjectMeta{Name: st.Name}}, st.Stale)
		if !ok {
			s.skip(st.A, "no-node")
			return nil
		}
		s.arm(actorHealth, st)
		s.run(actorHealth, st.Name, st.Stale, func() error { _, err := s.health.Reconcile(s.ctx, obj.(*corev1.Node)); return err })
	case "Live":
		obj, ok := s.fetch(actorLifecycle, &v1.NodeClaim{ObjectMeta: metav1.ObjectMeta{Name: st.Name}}, st.Stale)
		if !ok {
			s.skip(st.A, "no-claim")
			return nil
		}
		s.arm(actorLifecycle, st)
		if st.Prov != "" && st.Prov != "ok" {
			w.Prov.CreateOutcomes = []string{st.Prov}
		}
		s.run(actorLifecycle, st.Name, st.Stale, func() error { _, err := s.lc.Reconcile(s.ctx, obj.(*v1.NodeClaim)); return err })
	default:
		return fmt.Errorf("unknown step %q", st.A)
	}
	return nil
}

func (s *sim) addInstance(pid string, nc *v1.NodeClaim) {
	s.w.Prov.Instances[pid] = &world.Instance{ProviderID: pid, Claim: nc.Name, Type: "small", Zone: "zone-a",
		CapacityType: "on-demand", State: "running", NodeClaim: nc.DeepCopy()}
	s.w.Emit(trace.M{"e": "Skip", "a": "InstanceAdded", "why": pid})
}

// RunOne executes one behaviour in a fresh world, writing its trace.
func RunOne(b Behaviour, tw *trace.Writer) error {
	w := world.New()
	w.Prov.Types = world.DefaultCatalog()
	lt := int(nclifecycle.LaunchTimeout / time.Second)
	pols := []trace.M{}
	for _, p := range b.Cfg.Policies {
		w.Prov.Repair = append(w.Prov.Repair, cloudprovider.RepairPolicy{ConditionType: corev1.NodeConditionType(p.Type),
			ConditionStatus: corev1.ConditionStatus(p.Status), TolerationDuration: time.Duration(p.Toleration) * time.Second})
		pols = append(pols, trace.M{"type": p.Type, "status": p.Status, "toleration": p.Toleration})
	}
	s := &sim{w: w, ctx: world.Ctx(), pools: map[string]*v1.NodePool{}, lookupFail: map[string]bool{}}
	s.kube = s.wrap(w.Client)
	// the behaviour itself rides along as a string, so that a failing trace is a self-contained replay
	beh, _ := json.Marshal(b)
	tw.Begin(trace.M{"module": "Reapers", "policies": pols, "launchTimeout": lt, "regTimeout": 900, "tag": b.Tag, "beh": string(beh)})
	w.Sink = tw.Emit
	w.EnvCreate(world.NodeClass())
	s.restart()
	for i, st := range b.Steps {
		s.stepN = i
		if err := s.step(st); err != nil {
			return err
		}
	}
	return nil
}

func Run(args []string) error {
	fs := flag.NewFlagSet("reapers", flag.ContinueOnError)
	in := fs.String("in", "", "behaviours JSON")
	out := fs.String("out", "traces", "output directory")
	shards := fs.Int("shards", 8, "trace shards")
	if err := fs.Parse(args); err != nil {
		return err
	}
	raw, err := os.ReadFile(*in)
	if err != nil {
		return err
	}
	var behs []Behaviour
	if err := json.Unmarshal(raw, &behs); err != nil {
		return err
	}
	tw, err := trace.NewWriter(*out, "reapers", *shards)
	if err != nil {
		return err
	}
	for i, b := range behs {
		if err := RunOne(b, tw); err != nil {
			return fmt.Errorf("behaviour %d: %w", i, err)
		}
	}
	paths := tw.Close()
	sum, _ := json.Marshal(trace.M{"traces": tw.N, "lines": tw.Lines, "files": paths})
	fmt.Println(string(sum))
	return nil
}
