// Package reapers binds Reapers.tla (C16) to the real forceful reapers: nodeclaim expiration,
// nodeclaim garbage collection, node repair (node.health) and the lifecycle controller's liveness
// check, all running against the harness world.  The driver only records.
package reapers

import (
	"context"
	"encoding/json"
	"flag"
	"fmt"
	"os"
	"sort"
	"sync"
	"time"

	"github.com/awslabs/operatorpkg/status"
	corev1 "k8s.io/api/core/v1"
	apierrors "k8s.io/apimachinery/pkg/api/errors"
	"k8s.io/apimachinery/pkg/api/resource"
	metav1 "k8s.io/apimachinery/pkg/apis/meta/v1"
	"k8s.io/apimachinery/pkg/runtime/schema"
	"k8s.io/utils/clock"
	"sigs.k8s.io/controller-runtime/pkg/client"
	"sigs.k8s.io/controller-runtime/pkg/client/interceptor"

	v1 "sigs.k8s.io/karpenter/pkg/apis/v1"
	"sigs.k8s.io/karpenter/pkg/cloudprovider"
	nodehealth "sigs.k8s.io/karpenter/pkg/controllers/node/health"
	"sigs.k8s.io/karpenter/pkg/controllers/nodeclaim/expiration"
	"sigs.k8s.io/karpenter/pkg/controllers/nodeclaim/garbagecollection"
	nclifecycle "sigs.k8s.io/karpenter/pkg/controllers/nodeclaim/lifecycle"
	"sigs.k8s.io/karpenter/pkg/operator/injection"
	"sigs.k8s.io/karpenter/pkg/state/nodepoolhealth"

	"verif/harness/reg"
	"verif/harness/trace"
	"verif/harness/world"
)

func init() { reg.Register("reapers", Run) }

const (
	actorExpiration = "nodeclaim.expiration"
	actorGC         = "nodeclaim.garbagecollection"
	actorHealth     = "node.health"
	actorLifecycle  = "nodeclaim.lifecycle"
)

type Policy struct {
	Type       string `json:"type"`
	Status     string `json:"status"`
	Toleration int    `json:"toleration"` // seconds
}

// FaultSpec addresses one API call of a reconcile (verb, kind, sub, nth occurrence; nth 0 = every).
type FaultSpec struct {
	Verb string `json:"verb"`
	Kind string `json:"kind"`
	Sub  string `json:"sub"`
	Nth  int    `json:"nth"`
	Err  string `json:"err"`
}

type Step struct {
	A string `json:"a"`
	// object construction / environment
	Name         string            `json:"name"`
	Pool         string            `json:"pool"`
	Pid          string            `json:"pid"`
	ExpireAfter  int               `json:"expireAfter"` // seconds, -1 = Never
	Launched     string            `json:"launched"`    // condition status, "" = absent
	Registered   string            `json:"registered"`
	Initialized  string            `json:"initialized"`
	StartupTaint bool              `json:"startupTaint"` // Claim: the claim declares the startup taint
	ExtRes       int               `json:"extRes"`       // Claim: requests the extended resource
	Res          string            `json:"res"`          // Node: extended resource reported as "zero" | "one" ("" = not at all)
	Taints       []string          `json:"taints"`       // Node / Untaint: startup | ephemeral | unregistered
	NoFinalizer  bool              `json:"noFinalizer"`
	Instance     bool              `json:"instance"` // the provider has a running instance with this pid
	Unmanaged    bool              `json:"unmanaged"`
	Ready        string            `json:"ready"` // "" = no Ready condition
	Conds        map[string]string `json:"conds"`
	Type         string            `json:"type"`
	Status       string            `json:"status"`
	To           int               `json:"to"` // Tick: absolute instant = to seconds + ms milliseconds since the epoch
	Ms           int               `json:"ms"`
	Deleting     bool              `json:"deleting"` // Node: already terminating (deleted, lingering behind its finalizer)
	// reconciles
	Faults     []FaultSpec `json:"faults"`
	Prov       string      `json:"prov"`       // provider List (Gc) / Create (Live) outcome: ok|err|...
	LookupFail []string    `json:"lookupFail"` // Gc: provider ids whose Node lookup fails ("*" = all)
	LookupErr  string      `json:"lookupErr"`  // kind of that failure: Server (default) | NotFound | Timeout | TooManyRequests
	Stale      int         `json:"stale"`      // reconcile with the object as last handed to this controller
	Mid        []Step      `json:"mid"`        // Gc: environment steps that happen between the pass's two listing reads
}

type Cfg struct {
	Policies      []Policy `json:"policies"`
	LaunchTimeout int      `json:"launchTimeout"` // seconds; 0 = Karpenter's default
}

type Behaviour struct {
	Cfg   Cfg    `json:"cfg"`
	Steps []Step `json:"steps"`
	Tag   string `json:"tag"`
}

type sim struct {
	w      *world.World
	ctx    context.Context
	kube   client.Client // the world's client behind the node-lookup attribution wrapper
	exp    *expiration.Controller
	gc     *garbagecollection.Controller
	health *nodehealth.Controller
	lc     *nclifecycle.Controller
	pools  map[string]*v1.NodePool
	views  map[string]client.Object // last object handed to a controller (stale reconciles)

	mid        []Step // pending mid-reconcile environment steps (run once, after the first listing read of the pass)
	mu         sync.Mutex
	lookupFail map[string]bool
	lookupErr  string
	stepN      int // index of the step being executed (logged on Begin so that traces align with behaviours)
}

// wrap attributes every Node lookup by provider id (the garbage collector's readiness check): the choke
// point logs list calls without their field selector, and the collector looks its candidates up from
// parallel workers, so the lookup's provider id is recorded here, and a fault can be addressed to it.
func (s *sim) wrap(c client.Client) client.Client {
	return interceptor.NewClient(c.(client.WithWatch), interceptor.Funcs{
		List: func(ctx context.Context, cl client.WithWatch, list client.ObjectList, opts ...client.ListOption) error {
			if _, ok := list.(*v1.NodeClaimList); ok && injection.GetControllerName(ctx) == actorGC {
				err := cl.List(ctx, list, opts...)
				s.afterListing()
				return err
			}
			if _, ok := list.(*corev1.NodeList); !ok {
				return cl.List(ctx, list, opts...)
			}
			lo := &client.ListOptions{}
			lo.ApplyOptions(opts)
			if lo.FieldSelector == nil {
				return cl.List(ctx, list, opts...)
			}
			pid, ok := lo.FieldSelector.RequiresExactMatch("spec.providerID")
			if !ok {
				return cl.List(ctx, list, opts...)
			}
			act := injection.GetControllerName(ctx)
			s.mu.Lock()
			fail := s.lookupFail[pid] || s.lookupFail["*"]
			s.mu.Unlock()
			if fail && act == actorGC {
				s.mu.Lock()
				kind := s.lookupErr
				s.mu.Unlock()
				var err error
				gr := schema.GroupResource{Resource: "nodes"}
				switch kind {
				case "NotFound": // NotFound-typed, although a list has no "absent object" answer: the read failed all the same
					err = apierrors.NewNotFound(gr, pid)
				case "Timeout":
					err = apierrors.NewTimeoutError("injected node lookup timeout", 1)
				case "TooManyRequests":
					err = apierrors.NewTooManyRequests("injected", 1)
				default:
					kind = "Server"
					err = apierrors.NewInternalError(fmt.Errorf("injected node lookup failure for %s", pid))
				}
				s.w.Emit(trace.M{"e": "Read", "actor": act, "verb": "list", "kind": "Node", "name": pid, "err": kind, "injected": true})
				return err
			}
			err := cl.List(ctx, list, opts...)
			if act == actorGC {
				e := "-"
				if err != nil {
					e = "Server"
				}
				s.w.Emit(trace.M{"e": "Read", "actor": act, "verb": "list", "kind": "Node", "name": pid, "err": e, "injected": false})
			}
			return err
		},
	})
}

// afterListing runs the pending mid-reconcile environment steps: one schedule point between the two listing reads
// (NodeClaim list, provider List) of a garbage-collection pass, in whichever order the controller issues them.
func (s *sim) afterListing() {
	s.mu.Lock()
	mid := s.mid
	s.mid = nil
	s.mu.Unlock()
	for _, st := range mid {
		if err := s.step(st); err != nil {
			panic(err)
		}
	}
}

// provHook is the harness provider with that schedule point after List.
type provHook struct {
	*world.Provider
	s *sim
}

func (p provHook) List(ctx context.Context) ([]*v1.NodeClaim, error) {
	out, err := p.Provider.List(ctx)
	if injection.GetControllerName(ctx) == actorGC {
		p.s.afterListing()
	}
	return out, err
}

// noSleepClock: the lifecycle controller sleeps one second after a status patch (to read its own writes); in the harness
// that wait returns at once, so a reconcile does not move the scenario's clock.
type noSleepClock struct{ clock.Clock }

func (noSleepClock) Sleep(time.Duration) {}

const (
	startupKey   = "example.com/startup"
	ephemeralKey = "node.kubernetes.io/not-ready"
	extResName   = "example.com/gpu"
)

func taintFor(which string) corev1.Taint {
	switch which {
	case "startup":
		return corev1.Taint{Key: startupKey, Effect: corev1.TaintEffectNoSchedule}
	case "ephemeral":
		return corev1.Taint{Key: ephemeralKey, Effect: corev1.TaintEffectNoSchedule}
	}
	return v1.UnregisteredNoExecuteTaint
}

func (s *sim) restart() {
	w := s.w
	s.exp = expiration.NewController(w.Clock, s.kube, w.Prov)
	s.gc = garbagecollection.NewController(w.Clock, s.kube, provHook{w.Prov, s})
	s.health = nodehealth.NewController(s.kube, w.Prov, w.Clock, w.Rec)
	s.lc = nclifecycle.NewController(noSleepClock{w.Clock}, s.kube, w.Prov, w.Rec, nodepoolhealth.NewState(), nil)
	s.views = map[string]client.Object{}
}

func (s *sim) skip(a, why string) { s.w.Emit(trace.M{"e": "Skip", "a": a, "why": why}) }

func (s *sim) arm(actor string, st Step) {
	s.w.ClearFaults()
	for _, f := range st.Faults {
		sub := f.Sub
		if sub == "-" {
			sub = ""
		}
		s.w.AddFault(world.Fault{Actor: actor, Verb: f.Verb, Kind: f.Kind, Sub: sub, Nth: f.Nth, Err: f.Err})
	}
	s.mu.Lock()
	s.lookupFail = map[string]bool{}
	for _, p := range st.LookupFail {
		s.lookupFail[p] = true
	}
	s.lookupErr = st.LookupErr
	s.mu.Unlock()
}

func (s *sim) disarm() {
	s.w.ClearFaults()
	s.w.Prov.ListOutcomes, s.w.Prov.CreateOutcomes = nil, nil
	s.mu.Lock()
	s.lookupFail = map[string]bool{}
	s.mid = nil
	s.mu.Unlock()
}

// run brackets one real reconcile with Begin/End, recovering panics like controller-runtime does.
func (s *sim) run(controller, object string, stale int, f func() error) {
	s.w.Emit(trace.M{"e": "Begin", "controller": controller, "object": object, "stale": stale, "step": s.stepN})
	errS, panicked := "-", false
	func() {
		defer func() {
			if r := recover(); r != nil {
				panicked = true
				errS = fmt.Sprint(r)
			}
		}()
		if err := f(); err != nil {
			errS = "error"
		}
	}()
	s.disarm()
	s.w.Emit(trace.M{"e": "End", "controller": controller, "object": object, "err": errS, "panic": panicked})
}

// fetch returns the object to hand to a reconcile: the stored one, or (stale) the copy this controller got last time.
func (s *sim) fetch(controller string, obj client.Object, stale int) (client.Object, bool) {
	key := controller + "/" + obj.GetName()
	if stale > 0 {
		if v, ok := s.views[key]; ok {
			return v.DeepCopyObject().(client.Object), true
		}
	}
	if !s.w.Get(obj) {
		return nil, false
	}
	s.views[key] = obj.DeepCopyObject().(client.Object)
	return obj, true
}

func cond(t, st string, at time.Time) status.Condition {
	return status.Condition{Type: t, Status: metav1.ConditionStatus(st), LastTransitionTime: metav1.NewTime(at), Reason: t, Message: ""}
}

func setNodeCond(n *corev1.Node, t, st string, at time.Time) {
	for i := range n.Status.Conditions {
		if string(n.Status.Conditions[i].Type) == t {
			if st == "" || st == "Absent" {
				n.Status.Conditions = append(n.Status.Conditions[:i], n.Status.Conditions[i+1:]...)
				return
			}
			if string(n.Status.Conditions[i].Status) != st {
				n.Status.Conditions[i].Status = corev1.ConditionStatus(st)
				n.Status.Conditions[i].LastTransitionTime = metav1.NewTime(at)
			}
			return
		}
	}
	if st == "" || st == "Absent" {
		return
	}
	n.Status.Conditions = append(n.Status.Conditions, corev1.NodeCondition{Type: corev1.NodeConditionType(t),
		Status: corev1.ConditionStatus(st), LastTransitionTime: metav1.NewTime(at)})
}

func (s *sim) step(st Step) error {
	w := s.w
	now := w.Clock.Now()
	switch st.A {
	case "Pool":
		p := world.NodePool(st.Name)
		w.EnvCreate(p)
		s.pools[st.Name] = p
	case "Claim":
		nc := world.NodeClaim(st.Name, s.pools[st.Pool])
		if st.ExpireAfter >= 0 {
			nc.Spec.ExpireAfter = v1.MustParseNillableDuration(fmt.Sprintf("%ds", st.ExpireAfter))
		}
		if st.Unmanaged {
			nc.Spec.NodeClassRef = &v1.NodeClassReference{Group: "other.sh", Kind: "OtherNodeClass", Name: "x"}
		}
		if !st.NoFinalizer {
			nc.Finalizers = []string{v1.TerminationFinalizer}
		}
		if st.Launched != "" {
			nc.Status.Conditions = append(nc.Status.Conditions, cond(v1.ConditionTypeLaunched, st.Launched, now))
		}
		if st.Registered != "" {
			nc.Status.Conditions = append(nc.Status.Conditions, cond(v1.ConditionTypeRegistered, st.Registered, now))
		}
		if st.Initialized != "" {
			nc.Status.Conditions = append(nc.Status.Conditions, cond(v1.ConditionTypeInitialized, st.Initialized, now))
		}
		if st.StartupTaint {
			nc.Spec.StartupTaints = []corev1.Taint{taintFor("startup")}
		}
		if st.ExtRes > 0 {
			nc.Spec.Resources.Requests[corev1.ResourceName(extResName)] = resource.MustParse("1")
		}
		if st.Pid != "" {
			nc.Status.ProviderID = st.Pid
		}
		nc.Status.Capacity = world.RL(2000, 4096)
		nc.Status.Allocatable = world.RL(2000, 4096)
		w.EnvCreate(nc)
		if st.Instance && st.Pid != "" {
			s.addInstance(st.Pid, nc)
		}
	case "Node":
		n := &corev1.Node{
			// registered nodes carry Karpenter's termination finalizer: a deleted Node lingers, terminating, while it drains
			ObjectMeta: metav1.ObjectMeta{Name: st.Name, Labels: map[string]string{corev1.LabelHostname: st.Name},
				Finalizers: []string{v1.TerminationFinalizer}},
			Spec:   corev1.NodeSpec{ProviderID: st.Pid},
			Status: corev1.NodeStatus{Capacity: world.RL(2000, 4096), Allocatable: world.RL(2000, 4096)},
		}
		if st.Pool != "" {
			n.Labels[v1.NodePoolLabelKey] = st.Pool
			n.Labels[v1.NodeRegisteredLabelKey] = "true"
		}
		if st.Ready != "" {
			setNodeCond(n, string(corev1.NodeReady), st.Ready, now)
		}
		for t, v := range st.Conds {
			setNodeCond(n, t, v, now)
		}
		for _, t := range st.Taints {
			n.Spec.Taints = append(n.Spec.Taints, taintFor(t))
		}
		if st.Res != "" { // the device plugin's view of the extended resource: "zero" (not registered yet) | "one"
			q := resource.MustParse(map[string]string{"zero": "0", "one": "1"}[st.Res])
			n.Status.Capacity[corev1.ResourceName(extResName)] = q
			n.Status.Allocatable[corev1.ResourceName(extResName)] = q
		}
		w.EnvCreate(n)
		if st.Deleting {
			_ = w.Client.Delete(world.WithActor(context.Background(), "env"), n)
		}
	case "NodeDelete": // the Node is deleted (lifecycle finalize / an earlier repair wave) and is now terminating
		n := &corev1.Node{ObjectMeta: metav1.ObjectMeta{Name: st.Name}}
		if w.Get(n) {
			_ = w.Client.Delete(world.WithActor(context.Background(), "env"), n)
		} else {
			s.skip(st.A, "no-node")
		}
	case "Tick":
		w.Clock.SetTo(world.Epoch.Add(time.Duration(st.To)*time.Second + time.Duration(st.Ms)*time.Millisecond))
	case "InstanceGone":
		if !w.Prov.EnvInstanceGone(st.Pid) {
			s.skip(st.A, "no-instance")
		}
	case "SetCond":
		n := &corev1.Node{ObjectMeta: metav1.ObjectMeta{Name: st.Name}}
		if !w.EnvMutate(n, "SetCond-"+st.Type, func() { setNodeCond(n, st.Type, st.Status, now) }) {
			s.skip(st.A, "no-node")
		}
	case "Untaint":
		n := &corev1.Node{ObjectMeta: metav1.ObjectMeta{Name: st.Name}}
		if !w.EnvMutate(n, "Untaint", func() {
			var keep []corev1.Taint
			for _, t := range n.Spec.Taints {
				drop := false
				for _, which := range st.Taints {
					if t.Key == taintFor(which).Key {
						drop = true
					}
				}
				if !drop {
					keep = append(keep, t)
				}
			}
			n.Spec.Taints = keep
		}) {
			s.skip(st.A, "no-node")
		}
	case "NodeGone":
		if !w.EnvRemove(&corev1.Node{ObjectMeta: metav1.ObjectMeta{Name: st.Name}}, "NodeGone") {
			s.skip(st.A, "no-node")
		}
	case "UserDelete":
		nc := &v1.NodeClaim{ObjectMeta: metav1.ObjectMeta{Name: st.Name}}
		if w.Get(nc) {
			_ = w.Client.Delete(world.WithActor(context.Background(), "env"), nc)
		} else {
			s.skip(st.A, "no-claim")
		}
	case "Annotate": // someone else stamps the termination-timestamp annotation (st.To seconds from now; 0 = now)
		nc := &v1.NodeClaim{ObjectMeta: metav1.ObjectMeta{Name: st.Name}}
		if !w.EnvMutate(nc, "Annotate", func() {
			if nc.Annotations == nil {
				nc.Annotations = map[string]string{}
			}
			nc.Annotations[v1.NodeClaimTerminationTimestampAnnotationKey] = now.Add(time.Duration(st.To) * time.Second).Format(time.RFC3339)
		}) {
			s.skip(st.A, "no-claim")
		}
	case "SetClaim": // launch / registration progress made by the lifecycle controller + kubelet, abstracted
		nc := &v1.NodeClaim{ObjectMeta: metav1.ObjectMeta{Name: st.Name}}
		if !w.EnvMutate(nc, "SetClaim", func() {
			set := func(t, v string) {
				if v == "" {
					return
				}
				for i := range nc.Status.Conditions {
					if nc.Status.Conditions[i].Type == t {
						if string(nc.Status.Conditions[i].Status) != v {
							nc.Status.Conditions[i].Status = metav1.ConditionStatus(v)
							nc.Status.Conditions[i].LastTransitionTime = metav1.NewTime(now)
						}
						return
					}
				}
				nc.Status.Conditions = append(nc.Status.Conditions, cond(t, v, now))
			}
			set(v1.ConditionTypeLaunched, st.Launched)
			set(v1.ConditionTypeRegistered, st.Registered)
			set(v1.ConditionTypeInitialized, st.Initialized)
			if st.Pid != "" {
				nc.Status.ProviderID = st.Pid
			}
		}) {
			s.skip(st.A, "no-claim")
			return nil
		}
		if st.Instance && st.Pid != "" {
			_ = w.Get(nc)
			s.addInstance(st.Pid, nc)
		}
	case "Restart":
		s.restart()
		w.Emit(trace.M{"e": "Restart"})
	case "Expire":
		obj, ok := s.fetch(actorExpiration, &v1.NodeClaim{ObjectMeta: metav1.ObjectMeta{Name: st.Name}}, st.Stale)
		if !ok {
			s.skip(st.A, "no-claim")
			return nil
		}
		s.arm(actorExpiration, st)
		s.run(actorExpiration, st.Name, st.Stale, func() error { _, err := s.exp.Reconcile(s.ctx, obj.(*v1.NodeClaim)); return err })
	case "Gc":
		s.arm(actorGC, st)
		s.mid = st.Mid
		if st.Prov != "" && st.Prov != "ok" { // err | notfound | notfoundWrapped
			w.Prov.ListOutcomes = []string{st.Prov}
		}
		s.run(actorGC, "-", 0, func() error { _, err := s.gc.Reconcile(s.ctx); return err })
	case "Repair":
		obj, ok := s.fetch(actorHealth, &corev1.Node{ObjectMeta: metav1.ObjectMeta{Name: st.Name}}, st.Stale)
		if !ok {
			s.skip(st.A, "no-node")
			return nil
		}
		s.arm(actorHealth, st)
		s.run(actorHealth, st.Name, st.Stale, func() error { _, err := s.health.Reconcile(s.ctx, obj.(*corev1.Node)); return err })
	case "Live":
		obj, ok := s.fetch(actorLifecycle, &v1.NodeClaim{ObjectMeta: metav1.ObjectMeta{Name: st.Name}}, st.Stale)
		if !ok {
			s.skip(st.A, "no-claim")
			return nil
		}
		s.arm(actorLifecycle, st)
		if st.Prov != "" && st.Prov != "ok" {
			w.Prov.CreateOutcomes = []string{st.Prov}
		}
		s.run(actorLifecycle, st.Name, st.Stale, func() error { _, err := s.lc.Reconcile(s.ctx, obj.(*v1.NodeClaim)); return err })
	default:
		return fmt.Errorf("unknown step %q", st.A)
	}
	return nil
}

func (s *sim) addInstance(pid string, nc *v1.NodeClaim) {
	s.w.Prov.Instances[pid] = &world.Instance{ProviderID: pid, Claim: nc.Name, Type: "small", Zone: "zone-a",
		CapacityType: "on-demand", State: "running", NodeClaim: nc.DeepCopy()}
	// provider-shaped event, so that the trace spec's picture of the provider's instance table stays complete
	tbl := []trace.M{}
	ids := make([]string, 0, len(s.w.Prov.Instances))
	for id := range s.w.Prov.Instances {
		ids = append(ids, id)
	}
	sort.Strings(ids)
	for _, id := range ids {
		i := s.w.Prov.Instances[id]
		res := i.Reservation
		if res == "" {
			res = "-"
		}
		tbl = append(tbl, trace.M{"pid": i.ProviderID, "claim": i.Claim, "type": i.Type, "zone": i.Zone, "capacityType": i.CapacityType,
			"reservation": res, "state": i.State})
	}
	s.w.Emit(trace.M{"e": "Prov", "actor": "env", "call": "InstanceAdded", "arg": pid, "uid": "-", "err": "-", "result": "running", "post": tbl})
}

// RunOne executes one behaviour in a fresh world, writing its trace.
func RunOne(b Behaviour, tw *trace.Writer) error {
	w := world.New()
	w.Prov.Types = world.DefaultCatalog()
	lt := int(nclifecycle.LaunchTimeout / time.Second)
	pols := []trace.M{}
	for _, p := range b.Cfg.Policies {
		w.Prov.Repair = append(w.Prov.Repair, cloudprovider.RepairPolicy{ConditionType: corev1.NodeConditionType(p.Type),
			ConditionStatus: corev1.ConditionStatus(p.Status), TolerationDuration: time.Duration(p.Toleration) * time.Second})
		pols = append(pols, trace.M{"type": p.Type, "status": p.Status, "toleration": p.Toleration})
	}
	s := &sim{w: w, ctx: world.Ctx(), pools: map[string]*v1.NodePool{}, lookupFail: map[string]bool{}}
	s.kube = s.wrap(w.Client)
	// the behaviour itself rides along as a string, so that a failing trace is a self-contained replay
	beh, _ := json.Marshal(b)
	tw.Begin(trace.M{"module": "Reapers", "policies": pols, "launchTimeout": lt, "regTimeout": 900, "tag": b.Tag, "beh": string(beh)})
	// sub-second resolution: every event additionally carries its instant in milliseconds since the epoch
	w.Sink = func(ev trace.M) {
		ev["tms"] = int(w.Clock.Now().Sub(world.Epoch) / time.Millisecond)
		tw.Emit(ev)
	}
	w.EnvCreate(world.NodeClass())
	s.restart()
	for i, st := range b.Steps {
		s.stepN = i
		if err := s.step(st); err != nil {
			return err
		}
	}
	return nil
}

func Run(args []string) error {
	fs := flag.NewFlagSet("reapers", flag.ContinueOnError)
	in := fs.String("in", "", "behaviours JSON")
	out := fs.String("out", "traces", "output directory")
	shards := fs.Int("shards", 8, "trace shards")
	if err := fs.Parse(args); err != nil {
		return err
	}
	raw, err := os.ReadFile(*in)
	if err != nil {
		return err
	}
	var behs []Behaviour
	if err := json.Unmarshal(raw, &behs); err != nil {
		return err
	}
	tw, err := trace.NewWriter(*out, "reapers", *shards)
	if err != nil {
		return err
	}
	for i, b := range behs {
		if err := RunOne(b, tw); err != nil {
			return fmt.Errorf("behaviour %d: %w", i, err)
		}
	}
	paths := tw.Close()
	sum, _ := json.Marshal(trace.M{"traces": tw.N, "lines": tw.Lines, "files": paths})
	fmt.Println(string(sum))
	return nil
}
