// Package lifecycle binds Lifecycle.tla (C14, C16-liveness, C20 end-to-end) to the real
// nodeclaim lifecycle controller running against the harness world.
package lifecycle

import (
	"context"
	"encoding/json"
	"flag"
	"fmt"
	"os"
	"time"

	corev1 "k8s.io/api/core/v1"
	"k8s.io/apimachinery/pkg/api/resource"
	metav1 "k8s.io/apimachinery/pkg/apis/meta/v1"

	v1 "sigs.k8s.io/karpenter/pkg/apis/v1"
	nclifecycle "sigs.k8s.io/karpenter/pkg/controllers/nodeclaim/lifecycle"
	"sigs.k8s.io/karpenter/pkg/controllers/nodepool/registrationhealth"
	"sigs.k8s.io/karpenter/pkg/state/nodepoolhealth"

	"verif/harness/reg"
	"verif/harness/trace"
	"verif/harness/world"
)

func init() { reg.Register("lifecycle", Run) }

// FaultSpec addresses one API call of the reconcile (verb, kind, sub, nth occurrence).
type FaultSpec struct {
	Verb string `json:"verb"`
	Kind string `json:"kind"`
	Sub  string `json:"sub"`
	Nth  int    `json:"nth"`
	Err  string `json:"err"`
}

type Step struct {
	A       string      `json:"a"`
	Faults  []FaultSpec `json:"faults"`
	Prov    string      `json:"prov"`  // outcome of the provider Create in this reconcile: ok|ICE|NCNR|err
	Stale   int         `json:"stale"` // reconcile with the object as of k versions ago
	Unreg   bool        `json:"unreg"`
	Startup bool        `json:"startup"`
	Eph     bool        `json:"eph"`
	Ready   bool        `json:"ready"`
	Res     bool        `json:"res"`
	Which   string      `json:"which"`
	D       int         `json:"d"`
}

type Cfg struct {
	StartupTaint bool `json:"startupTaint"`
	ExtRes       bool `json:"extRes"`
	// TaintVariant: how the taints the kubelet/cloud puts on the node differ from the declared ones although they are
	// the same taints by Kubernetes' MatchTaint (key+effect): 0 identical; 1 the startup taint carries a value and the
	// ephemeral taint is not-ready:NoExecute with timeAdded; 2 the startup taint carries timeAdded and the ephemeral
	// taint is unreachable:NoSchedule
	TaintVariant int `json:"taintVariant"`
	// NoSyncTaints: the node registers with the label karpenter.sh/do-not-sync-taints=true (Karpenter then does not
	// sync the NodeClaim's taints onto it; the unregistered taint must still be removed before Registered)
	NoSyncTaints bool `json:"noSyncTaints"`
	// WrapCapErr: capacity errors of the provider come wrapped in a CreateError
	WrapCapErr bool `json:"wrapCapErr"`
}

func startupTaintOnNode(v int, at time.Time) corev1.Taint {
	t := corev1.Taint{Key: startupKey, Effect: corev1.TaintEffectNoSchedule}
	switch v {
	case 1:
		t.Value = "custom"
	case 2:
		ta := metav1.NewTime(at)
		t.TimeAdded = &ta
	}
	return t
}

func ephTaintOnNode(v int, at time.Time) corev1.Taint {
	switch v {
	case 1:
		ta := metav1.NewTime(at)
		return corev1.Taint{Key: corev1.TaintNodeNotReady, Effect: corev1.TaintEffectNoExecute, TimeAdded: &ta}
	case 2:
		return corev1.Taint{Key: corev1.TaintNodeUnreachable, Effect: corev1.TaintEffectNoSchedule}
	}
	return corev1.Taint{Key: ephemeralKey, Effect: corev1.TaintEffectNoSchedule}
}

type Behaviour struct {
	Cfg   Cfg    `json:"cfg"`
	Steps []Step `json:"steps"`
}

const (
	extResName     = "example.com/gpu"
	startupKey     = "example.com/startup"
	ephemeralKey   = "node.kubernetes.io/not-ready"
	claimName      = "nc-1"
	nodeName       = "node-1"
	poolName       = "pool-1"
	healthStatusNA = "-"
)

func statusName(s nodepoolhealth.Status) string {
	switch s {
	case nodepoolhealth.StatusHealthy:
		return "Healthy"
	case nodepoolhealth.StatusUnhealthy:
		return "Unhealthy"
	}
	return "Unknown"
}

type sim struct {
	w      *world.World
	ctx    context.Context
	ctrl   *nclifecycle.Controller
	health *registrationhealth.Controller
	np     *nodepoolhealth.State
	pool   *v1.NodePool
	cfg    Cfg
	view   *v1.NodeClaim // the informer's copy: refreshed by every up-to-date reconcile, reused by stale ones
}

func (s *sim) restart() {
	s.np = nodepoolhealth.NewState()
	s.ctrl = nclifecycle.NewController(s.w.Clock, s.w.Client, s.w.Prov, s.w.Rec, s.np, nil)
	s.health = registrationhealth.NewController(s.w.Clock, s.w.Client, s.w.Prov, s.np)
}

func (s *sim) mem() {
	s.w.Emit(trace.M{"e": "Mem", "health": statusName(s.np.Status(s.pool.UID)),
		"dryT": statusName(s.np.DryRun(s.pool.UID, true).Status()), "dryF": statusName(s.np.DryRun(s.pool.UID, false).Status())})
}

func (s *sim) reconcile(st Step) {
	nc := &v1.NodeClaim{ObjectMeta: metav1.ObjectMeta{Name: claimName}}
	if !s.w.Get(nc) {
		// the object is gone; a lagging informer may still hand the controller its copy
		if st.Stale == 0 || s.view == nil {
			s.w.Emit(trace.M{"e": "Skip", "a": "Rec", "why": "no-claim"})
			return
		}
	} else if st.Stale == 0 || s.view == nil {
		s.view = nc.DeepCopy()
	}
	obj := s.view.DeepCopy()
	s.w.ClearFaults()
	for _, f := range st.Faults {
		sub := f.Sub
		if sub == "-" {
			sub = ""
		}
		s.w.AddFault(world.Fault{Actor: "nodeclaim.lifecycle", Verb: f.Verb, Kind: f.Kind, Sub: sub, Nth: f.Nth, Err: f.Err})
	}
	s.w.Prov.CreateOutcomes = nil
	if st.Prov != "" && st.Prov != "ok" {
		o := st.Prov
		if s.cfg.WrapCapErr && (o == "ICE" || o == "NCNR") {
			o += "w"
		}
		s.w.Prov.CreateOutcomes = []string{o}
	}
	s.w.Emit(trace.M{"e": "Begin", "controller": "nodeclaim.lifecycle", "object": claimName, "stale": st.Stale})
	errS, panicked := "-", false
	func() {
		defer func() {
			if r := recover(); r != nil {
				panicked = true
				errS = fmt.Sprint(r)
			}
		}()
		if _, err := s.ctrl.Reconcile(s.ctx, obj); err != nil {
			errS = "error"
		}
	}()
	s.w.ClearFaults()
	s.w.Prov.CreateOutcomes = nil
	s.w.Emit(trace.M{"e": "End", "controller": "nodeclaim.lifecycle", "object": claimName, "err": errS, "panic": panicked})
	s.mem()
}

func (s *sim) node() *corev1.Node { return &corev1.Node{ObjectMeta: metav1.ObjectMeta{Name: nodeName}} }

func (s *sim) step(cfg Cfg, st Step) error {
	w := s.w
	switch st.A {
	case "Rec":
		s.reconcile(st)
	case "NodeAppears":
		nc := &v1.NodeClaim{ObjectMeta: metav1.ObjectMeta{Name: claimName}}
		// the kubelet registers the node of the instance the provider really created, whether or not
		// the provider id has been persisted on the NodeClaim yet
		var pid string
		for id, i := range w.Prov.Instances {
			if i.Claim == claimName && i.State == "running" {
				pid = id
			}
		}
		if pid == "" || w.Get(s.node()) {
			w.Emit(trace.M{"e": "Skip", "a": st.A, "why": "no-instance-or-node-exists"})
			return nil
		}
		_ = w.Get(nc)
		inst := w.Prov.Instances[pid]
		n := world.NodeFor(inst.NodeClaim, nodeName, st.Unreg)
		if st.Startup && cfg.StartupTaint {
			n.Spec.Taints = append(n.Spec.Taints, startupTaintOnNode(cfg.TaintVariant, w.Clock.Now()))
		}
		if st.Eph {
			n.Spec.Taints = append(n.Spec.Taints, ephTaintOnNode(cfg.TaintVariant, w.Clock.Now()))
		}
		world.SetNodeReady(n, st.Ready, w.Clock.Now())
		if cfg.NoSyncTaints {
			n.Labels[v1.NodeDoNotSyncTaintsLabelKey] = "true"
		}
		if cfg.ExtRes {
			q := resource.MustParse("0")
			if st.Res {
				q = resource.MustParse("1")
			}
			n.Status.Allocatable[corev1.ResourceName(extResName)] = q
			n.Status.Capacity[corev1.ResourceName(extResName)] = q
		}
		w.EnvCreate(n)
	case "RemoveTaint":
		key := map[string]string{"unreg": v1.UnregisteredTaintKey, "startup": startupKey,
			"eph": ephTaintOnNode(cfg.TaintVariant, w.Clock.Now()).Key}[st.Which]
		n := s.node()
		if !w.EnvMutate(n, "RemoveTaint-"+st.Which, func() {
			var keep []corev1.Taint
			for _, t := range n.Spec.Taints {
				if t.Key != key {
					keep = append(keep, t)
				}
			}
			n.Spec.Taints = keep
		}) {
			w.Emit(trace.M{"e": "Skip", "a": st.A, "why": "no-node"})
		}
	case "Ready":
		n := s.node()
		if !w.EnvMutate(n, "KubeletReady", func() { world.SetNodeReady(n, st.Ready, w.Clock.Now()) }) {
			w.Emit(trace.M{"e": "Skip", "a": st.A, "why": "no-node"})
		}
	case "ReportRes":
		n := s.node()
		if !w.EnvMutate(n, "ReportResource", func() {
			n.Status.Allocatable[corev1.ResourceName(extResName)] = resource.MustParse("1")
			n.Status.Capacity[corev1.ResourceName(extResName)] = resource.MustParse("1")
		}) {
			w.Emit(trace.M{"e": "Skip", "a": st.A, "why": "no-node"})
		}
	case "Tick":
		w.Clock.Step(time.Duration(st.D) * time.Second)
	case "Restart":
		s.restart()
		s.view = nil
		w.Emit(trace.M{"e": "Restart"})
	case "ClaimGone", "UserDelete":
		nc := &v1.NodeClaim{ObjectMeta: metav1.ObjectMeta{Name: claimName}}
		if w.Get(nc) {
			_ = w.Client.Delete(world.WithActor(context.Background(), "env"), nc)
		} else {
			w.Emit(trace.M{"e": "Skip", "a": st.A, "why": "no-claim"})
		}
	case "NodeGone":
		if !w.EnvRemove(s.node(), "NodeGone") {
			w.Emit(trace.M{"e": "Skip", "a": st.A, "why": "no-node"})
		}
	case "HealthRec":
		p := &v1.NodePool{ObjectMeta: metav1.ObjectMeta{Name: poolName}}
		if w.Get(p) {
			w.Emit(trace.M{"e": "Begin", "controller": "nodepool.registrationhealth", "object": poolName, "stale": 0})
			_, err := s.health.Reconcile(s.ctx, p)
			w.Emit(trace.M{"e": "End", "controller": "nodepool.registrationhealth", "object": poolName, "err": errStr(err), "panic": false})
			s.mem()
		}
	case "EditPool":
		p := &v1.NodePool{ObjectMeta: metav1.ObjectMeta{Name: poolName}}
		w.EnvMutate(p, "EditPool", func() { p.Generation++ })
	default:
		return fmt.Errorf("unknown step %q", st.A)
	}
	return nil
}

func errStr(err error) string {
	if err == nil {
		return "-"
	}
	return "error"
}

// RunOne executes one behaviour in a fresh world, writing its trace.
func RunOne(b Behaviour, tw *trace.Writer) error {
	w := world.New()
	w.Prov.Types = world.DefaultCatalog()
	if b.Cfg.ExtRes {
		w.Prov.Types = append(w.Prov.Types, world.MakeType(world.TypeSpec{Name: "gpu", CPU: 4000, MemMi: 8192,
			ExtraRes:  map[string]int{extResName: 1},
			Offerings: []world.OfferingSpec{{Zone: "zone-a", CapacityType: "on-demand", Price: 900, Available: true}}}))
	}
	s := &sim{w: w, ctx: world.Ctx(), cfg: b.Cfg}
	behJSON, _ := json.Marshal(b)
	tw.Begin(trace.M{"module": "Lifecycle", "behJson": string(behJSON), "launchTimeout": int(nclifecycle.LaunchTimeout / time.Second), "regTimeout": 900,
		"startupTaint": b.Cfg.StartupTaint, "extRes": b.Cfg.ExtRes, "taintVariant": b.Cfg.TaintVariant, "noSyncTaints": b.Cfg.NoSyncTaints, "wrapCapErr": b.Cfg.WrapCapErr, "startupKey": startupKey, "extResName": extResName,
		"claim": claimName, "pool": poolName})
	w.Sink = tw.Emit
	w.EnvCreate(world.NodeClass())
	pool := world.NodePool(poolName)
	if b.Cfg.StartupTaint {
		pool.Spec.Template.Spec.StartupTaints = []corev1.Taint{{Key: startupKey, Effect: corev1.TaintEffectNoSchedule}}
	}
	w.EnvCreate(pool)
	s.pool = pool
	nc := world.NodeClaim(claimName, pool)
	nc.Spec.StartupTaints = pool.Spec.Template.Spec.StartupTaints
	if b.Cfg.ExtRes {
		nc.Spec.Resources.Requests[corev1.ResourceName(extResName)] = resource.MustParse("1")
	}
	w.EnvCreate(nc)
	s.view = nc.DeepCopy() // the informer delivered the new object
	s.restart()
	for _, st := range b.Steps {
		if err := s.step(b.Cfg, st); err != nil {
			return err
		}
	}
	return nil
}

func Run(args []string) error {
	fs := flag.NewFlagSet("lifecycle", flag.ContinueOnError)
	in := fs.String("in", "", "behaviours JSON")
	out := fs.String("out", "traces", "output directory")
	shards := fs.Int("shards", 8, "trace shards")
	if err := fs.Parse(args); err != nil {
		return err
	}
	raw, err := os.ReadFile(*in)
	if err != nil {
		return err
	}
	var behs []Behaviour
	if err := json.Unmarshal(raw, &behs); err != nil {
		return err
	}
	tw, err := trace.NewWriter(*out, "lifecycle", *shards)
	if err != nil {
		return err
	}
	for i, b := range behs {
		if err := RunOne(b, tw); err != nil {
			return fmt.Errorf("behaviour %d: %w", i, err)
		}
	}
	paths := tw.Close()
	sum, _ := json.Marshal(trace.M{"traces": tw.N, "lines": tw.Lines, "files": paths})
	fmt.Println(string(sum))
	return nil
}
