package main

import _ "verif/harness/drivers/frame"
