package main

import _ "verif/harness/drivers/health"
