package main

import _ "verif/harness/drivers/multipass"
