// drv runs one harness driver: `drv <driver> [flags]`.  Drivers execute behaviours on the real
// Karpenter code from /repo (built with -tags verif) and only *record* ndjson traces; verdicts
// are TLC's.  Each driver prints a one-line JSON summary on stdout.
package main

import (
	"fmt"
	"os"
	"sort"

	"verif/harness/reg"
)

func main() {
	if len(os.Args) < 2 {
		names := []string{}
		for n := range reg.Registry {
			names = append(names, n)
		}
		sort.Strings(names)
		fmt.Fprintln(os.Stderr, "usage: drv <driver> [flags]; drivers:", names)
		os.Exit(2)
	}
	d, ok := reg.Registry[os.Args[1]]
	if !ok {
		fmt.Fprintln(os.Stderr, "unknown driver", os.Args[1])
		os.Exit(2)
	}
	if err := d(os.Args[2:]); err != nil {
		fmt.Fprintln(os.Stderr, "driver error:", err)
		os.Exit(3)
	}
}
