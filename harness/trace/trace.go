// Package trace writes ndjson event logs that the TLA+ trace specifications consume.
// Format rules (Json module): no null, ints fit 32 bits, no floats, homogeneous arrays,
// every record of a kind carries the same field set.
package trace

import (
	"bufio"
	"encoding/json"
	"fmt"
	"os"
	"path/filepath"
)

type M = map[string]any

// Writer shards traces over N files (one TLC process validates each file).
type Writer struct {
	files []*os.File
	bufs  []*bufio.Writer
	cur   int
	paths []string
	Lines int
	N     int // traces started
}

func NewWriter(dir, prefix string, shards int) (*Writer, error) {
	if shards < 1 {
		shards = 1
	}
	w := &Writer{}
	if err := os.MkdirAll(dir, 0o755); err != nil {
		return nil, err
	}
	for i := 0; i < shards; i++ {
		p := filepath.Join(dir, fmt.Sprintf("%s-%02d.ndjson", prefix, i))
		f, err := os.Create(p)
		if err != nil {
			return nil, err
		}
		w.files = append(w.files, f)
		w.bufs = append(w.bufs, bufio.NewWriterSize(f, 1<<20))
		w.paths = append(w.paths, p)
	}
	return w, nil
}

// Begin starts a new trace (round-robin over shards) with its Cfg line.
func (w *Writer) Begin(cfg M) {
	w.cur = w.N % len(w.files)
	w.N++
	cfg["e"] = "Cfg"
	w.Emit(cfg)
}

func (w *Writer) Emit(ev M) {
	b, err := json.Marshal(ev)
	if err != nil {
		panic(err)
	}
	w.bufs[w.cur].Write(b)
	w.bufs[w.cur].WriteByte('\n')
	w.Lines++
}

// Close flushes and returns the non-empty shard paths.
func (w *Writer) Close() []string {
	var out []string
	for i, b := range w.bufs {
		b.Flush()
		st, _ := w.files[i].Stat()
		w.files[i].Close()
		if st != nil && st.Size() > 0 {
			out = append(out, w.paths[i])
		} else {
			os.Remove(w.paths[i])
		}
	}
	return out
}
