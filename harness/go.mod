module verif/harness

go 1.26.6

require (
	k8s.io/apimachinery v0.36.1
	sigs.k8s.io/karpenter v0.0.0
)

replace sigs.k8s.io/karpenter => /repo
