// Package world is the in-memory stand-in for the API server, the cloud provider and the clock that
// the real Karpenter controllers run against.  Every API call of every controller goes through one
// choke point (an interceptor over controller-runtime's fake client) that, under one mutex,
// (i) consults the fault plan, (ii) lets the call through to the store and normalises what an API
// server would (virtual creation/deletion timestamps, UIDs, pods terminating until the kubelet step),
// (iii) appends one event with the abstract projection of the object *after* the write.  Event
// order therefore equals store order (the linearization order).
package world

import (
	"context"
	"fmt"
	"strconv"
	"strings"
	"sync"
	"time"

	corev1 "k8s.io/api/core/v1"
	policyv1 "k8s.io/api/policy/v1"
	storagev1 "k8s.io/api/storage/v1"
	apierrors "k8s.io/apimachinery/pkg/api/errors"
	"k8s.io/apimachinery/pkg/api/meta"
	metav1 "k8s.io/apimachinery/pkg/apis/meta/v1"
	"k8s.io/apimachinery/pkg/labels"
	"k8s.io/apimachinery/pkg/runtime/schema"
	"k8s.io/apimachinery/pkg/runtime/serializer"
	"k8s.io/apimachinery/pkg/types"
	"k8s.io/client-go/kubernetes/scheme"
	k8stesting "k8s.io/client-go/testing"
	"sigs.k8s.io/controller-runtime/pkg/client"
	"sigs.k8s.io/controller-runtime/pkg/client/fake"
	"sigs.k8s.io/controller-runtime/pkg/client/interceptor"

	v1 "sigs.k8s.io/karpenter/pkg/apis/v1"
	"sigs.k8s.io/karpenter/pkg/events"
	"sigs.k8s.io/karpenter/pkg/operator/injection"
	"sigs.k8s.io/karpenter/pkg/operator/options"
	overlayv1alpha1 "sigs.k8s.io/karpenter/pkg/apis/v1alpha1"
	"sigs.k8s.io/karpenter/pkg/test/v1alpha1"

	"verif/harness/trace"
)

// KubeletFinalizer keeps deleted/evicted pods visible (terminating) until the behaviour's PodGone step.
const KubeletFinalizer = "verif.harness/kubelet"

// Call describes one API call at the choke point.
type Call struct {
	Actor string
	Verb  string // get list create delete update patch evict
	Kind  string
	Name  string
	Sub   string // "" | "status" | "eviction"
}

// Fault makes the n-th (1-based, 0 = every) matching call fail with Err. Empty fields match anything.
type Fault struct {
	Actor, Verb, Kind, Name, Sub string
	Nth                          int
	Err                          string // Conflict | NotFound | Server | TooManyRequests
	seen                         int
	used                         bool
}

type World struct {
	Clock  *VClock
	Client client.Client // the intercepted client handed to controllers
	Raw    k8stesting.ObjectTracker
	Prov   *Provider
	Rec    *Recorder

	mu     sync.Mutex
	seq    int
	faults []*Fault
	Sink   func(trace.M) // nil = events dropped
	// Gate, if set, is called (outside the mutex) before every call; it may block to schedule goroutines.
	Gate func(Call)
	// LogReads emits Read events (off by default: reads are numerous).
	LogReads bool
	uidN     int
	base     client.WithWatch
}

// Recorder collects Karpenter events (never judged, useful for diagnosis).
type Recorder struct {
	mu     sync.Mutex
	Events []events.Event
}

func (r *Recorder) Publish(evs ...events.Event) {
	r.mu.Lock()
	defer r.mu.Unlock()
	r.Events = append(r.Events, evs...)
}

var _ events.Recorder = (*Recorder)(nil)

// New builds a fresh world.
func New() *World {
	w := &World{Clock: NewClock(), Rec: &Recorder{}}
	codecs := serializer.NewCodecFactory(scheme.Scheme)
	w.Raw = k8stesting.NewObjectTracker(scheme.Scheme, codecs.UniversalDecoder())
	b := fake.NewClientBuilder().WithScheme(scheme.Scheme).WithObjectTracker(w.Raw).
		WithStatusSubresource(&v1.NodeClaim{}, &v1.NodePool{}, &v1alpha1.TestNodeClass{}, &corev1.Node{}, &corev1.Pod{},
			&policyv1.PodDisruptionBudget{}, &overlayv1alpha1.NodeOverlay{}).
		WithIndex(&corev1.Pod{}, "spec.nodeName", func(o client.Object) []string { return []string{o.(*corev1.Pod).Spec.NodeName} }).
		WithIndex(&corev1.Node{}, "spec.providerID", func(o client.Object) []string { return []string{o.(*corev1.Node).Spec.ProviderID} }).
		WithIndex(&storagev1.VolumeAttachment{}, "spec.nodeName", func(o client.Object) []string {
			return []string{o.(*storagev1.VolumeAttachment).Spec.NodeName}
		}).
		WithIndex(&v1.NodeClaim{}, "status.providerID", func(o client.Object) []string { return []string{o.(*v1.NodeClaim).Status.ProviderID} }).
		WithIndex(&v1.NodeClaim{}, "spec.nodeClassRef.group", func(o client.Object) []string {
			return []string{o.(*v1.NodeClaim).Spec.NodeClassRef.Group}
		}).
		WithIndex(&v1.NodeClaim{}, "spec.nodeClassRef.kind", func(o client.Object) []string {
			return []string{o.(*v1.NodeClaim).Spec.NodeClassRef.Kind}
		}).
		WithIndex(&v1.NodeClaim{}, "spec.nodeClassRef.name", func(o client.Object) []string {
			return []string{o.(*v1.NodeClaim).Spec.NodeClassRef.Name}
		}).
		WithIndex(&v1.NodePool{}, "spec.template.spec.nodeClassRef.group", func(o client.Object) []string {
			return []string{o.(*v1.NodePool).Spec.Template.Spec.NodeClassRef.Group}
		}).
		WithIndex(&v1.NodePool{}, "spec.template.spec.nodeClassRef.kind", func(o client.Object) []string {
			return []string{o.(*v1.NodePool).Spec.Template.Spec.NodeClassRef.Kind}
		}).
		WithIndex(&v1.NodePool{}, "spec.template.spec.nodeClassRef.name", func(o client.Object) []string {
			return []string{o.(*v1.NodePool).Spec.Template.Spec.NodeClassRef.Name}
		})
	w.base = b.Build()
	w.Client = interceptor.NewClient(w.base, w.funcs())
	w.Prov = NewProvider(w)
	w.Clock.OnTick = func(to time.Time) {
		w.Emit(trace.M{"e": "Tick", "to": int(to.Sub(Epoch) / time.Second)})
	}
	return w
}

// Ctx returns a context carrying Karpenter options (defaults of the binary unless overridden).
func Ctx(mut ...func(*options.Options)) context.Context {
	o := &options.Options{
		CPURequests:       5000,
		BatchMaxDuration:  10 * time.Second,
		BatchIdleDuration: time.Second,
		PreferencePolicy:  options.PreferencePolicyRespect,
		MinValuesPolicy:   options.MinValuesPolicyStrict,
		IgnoreDRARequests: true,
		FeatureGates: options.FeatureGates{ReservedCapacity: true, NodeRepair: true, StaticCapacity: true,
			SpotToSpotConsolidation: false, NodeOverlay: false, CapacityBuffer: false},
	}
	for _, m := range mut {
		m(o)
	}
	return options.ToContext(context.Background(), o)
}

// Emit appends an event (adds seq and t).
func (w *World) Emit(ev trace.M) {
	w.mu.Lock()
	defer w.mu.Unlock()
	w.emitLocked(ev)
}

func (w *World) emitLocked(ev trace.M) {
	if w.Sink == nil {
		return
	}
	w.seq++
	ev["seq"] = w.seq
	if _, ok := ev["t"]; !ok {
		ev["t"] = w.Clock.Sec()
	}
	w.Sink(ev)
}

// ResetSeq restarts event numbering (new trace).
func (w *World) ResetSeq() { w.mu.Lock(); w.seq = 0; w.mu.Unlock() }

// AddFault registers a fault for the plan of the behaviour being replayed.
func (w *World) AddFault(f Fault) { w.mu.Lock(); w.faults = append(w.faults, &f); w.mu.Unlock() }
func (w *World) ClearFaults()     { w.mu.Lock(); w.faults = nil; w.mu.Unlock() }

func (w *World) faultFor(c Call) error {
	for _, f := range w.faults {
		if f.used && f.Nth != 0 {
			continue
		}
		if (f.Actor != "" && f.Actor != c.Actor) || (f.Verb != "" && f.Verb != c.Verb) || (f.Kind != "" && f.Kind != c.Kind) ||
			(f.Name != "" && f.Name != c.Name) || (f.Sub != "*" && f.Sub != c.Sub) {
			continue
		}
		f.seen++
		if f.Nth != 0 && f.seen != f.Nth {
			continue
		}
		f.used = true
		gr := schema.GroupResource{Resource: strings.ToLower(c.Kind)}
		switch f.Err {
		case "Conflict":
			return apierrors.NewConflict(gr, c.Name, fmt.Errorf("injected"))
		case "NotFound":
			return apierrors.NewNotFound(gr, c.Name)
		case "TooManyRequests":
			return apierrors.NewTooManyRequests("injected", 1)
		default:
			return apierrors.NewInternalError(fmt.Errorf("injected server error"))
		}
	}
	return nil
}

// clusterScoped lists the cluster-scoped kinds Karpenter touches.
var clusterScoped = map[string]bool{"Node": true, "NodeClaim": true, "NodePool": true, "TestNodeClass": true, "PersistentVolume": true,
	"StorageClass": true, "CSINode": true, "VolumeAttachment": true, "PriorityClass": true, "Namespace": true, "NodeOverlay": true,
	"ResourceSlice": true, "DeviceClass": true, "CSIDriver": true}

func kindOf(o any) string {
	switch o.(type) {
	case *v1.NodeClaim, *v1.NodeClaimList:
		return "NodeClaim"
	case *v1.NodePool, *v1.NodePoolList:
		return "NodePool"
	case *corev1.Node, *corev1.NodeList:
		return "Node"
	case *corev1.Pod, *corev1.PodList:
		return "Pod"
	}
	t := fmt.Sprintf("%T", o)
	if i := strings.LastIndex(t, "."); i >= 0 {
		t = t[i+1:]
	}
	return strings.TrimSuffix(t, "List")
}

func errName(err error) string {
	switch {
	case err == nil:
		return "-"
	case apierrors.IsConflict(err):
		return "Conflict"
	case apierrors.IsNotFound(err):
		return "NotFound"
	case apierrors.IsTooManyRequests(err):
		return "TooManyRequests"
	case apierrors.IsAlreadyExists(err):
		return "AlreadyExists"
	}
	return "Server"
}

func actor(ctx context.Context) string {
	if a, ok := ctx.Value(actorKey{}).(string); ok && a != "" {
		return a
	}
	if n := injection.GetControllerName(ctx); n != "" {
		return n
	}
	return "-"
}

type actorKey struct{}

// WithActor tags a context so that API calls made with it are attributed to the actor.
func WithActor(ctx context.Context, a string) context.Context {
	return context.WithValue(ctx, actorKey{}, a)
}

// write runs one mutating call under the choke-point mutex.
func (w *World) write(ctx context.Context, c Call, obj client.Object, grace int, do func() error) error {
	c.Actor = actor(ctx)
	if w.Gate != nil {
		w.Gate(c)
	}
	w.mu.Lock()
	defer w.mu.Unlock()
	err := w.faultFor(c)
	injected := err != nil
	if err == nil {
		err = do()
	}
	post := trace.M{"exists": false}
	gone := false
	if err == nil && obj != nil {
		if cur, ok := w.currentLocked(obj); ok {
			post = Abs(cur)
		} else {
			gone = true
		}
	}
	w.emitLocked(trace.M{"e": "Api", "actor": c.Actor, "verb": c.Verb, "kind": c.Kind, "name": c.Name, "sub": orDash(c.Sub),
		"err": errName(err), "injected": injected, "gone": gone, "grace": grace, "post": post})
	return err
}

func orDash(s string) string {
	if s == "" {
		return "-"
	}
	return s
}

func (w *World) read(ctx context.Context, c Call, do func() error) error {
	c.Actor = actor(ctx)
	if w.Gate != nil {
		w.Gate(c)
	}
	w.mu.Lock()
	defer w.mu.Unlock()
	err := w.faultFor(c)
	injected := err != nil
	if err == nil {
		err = do()
	}
	if w.LogReads || injected {
		w.emitLocked(trace.M{"e": "Read", "actor": c.Actor, "verb": c.Verb, "kind": c.Kind, "name": orDash(c.Name),
			"err": errName(err), "injected": injected})
	}
	return err
}

// currentLocked fetches the stored version of obj (fresh object), false if absent.
func (w *World) currentLocked(obj client.Object) (client.Object, bool) {
	cur := obj.DeepCopyObject().(client.Object)
	if err := w.base.Get(context.Background(), client.ObjectKeyFromObject(obj), cur); err != nil {
		return nil, false
	}
	return cur, true
}

func (w *World) gvr(obj client.Object) schema.GroupVersionResource {
	gvk, _ := w.base.GroupVersionKindFor(obj)
	plural, _ := meta.UnsafeGuessKindToResource(gvk)
	return plural
}

// rawUpdate rewrites the stored object bypassing all fake-client checks (timestamps, UIDs).
func (w *World) rawUpdate(obj client.Object) {
	if err := w.Raw.Update(w.gvr(obj), obj, obj.GetNamespace()); err != nil {
		panic(fmt.Sprintf("raw update %T %s: %v", obj, obj.GetName(), err))
	}
}

func (w *World) nextUID(prefix string) types.UID {
	w.uidN++
	return types.UID(fmt.Sprintf("uid-%s-%d", prefix, w.uidN))
}

func (w *World) funcs() interceptor.Funcs {
	return interceptor.Funcs{
		Get: func(ctx context.Context, c client.WithWatch, key client.ObjectKey, obj client.Object, opts ...client.GetOption) error {
			// a real client drops the namespace of a cluster-scoped kind; the fake tracker keys by namespace
			// (Karpenter e.g. Gets a PersistentVolume with the pod's namespace in the key)
			if clusterScoped[kindOf(obj)] {
				key.Namespace = ""
			}
			return w.read(ctx, Call{Verb: "get", Kind: kindOf(obj), Name: key.Name}, func() error { return c.Get(ctx, key, obj, opts...) })
		},
		List: func(ctx context.Context, c client.WithWatch, list client.ObjectList, opts ...client.ListOption) error {
			return w.read(ctx, Call{Verb: "list", Kind: kindOf(list)}, func() error { return c.List(ctx, list, opts...) })
		},
		Create: func(ctx context.Context, c client.WithWatch, obj client.Object, opts ...client.CreateOption) error {
			return w.write(ctx, Call{Verb: "create", Kind: kindOf(obj), Name: obj.GetName()}, obj, -1, func() error {
				if obj.GetName() == "" && obj.GetGenerateName() != "" {
					w.uidN++
					obj.SetName(fmt.Sprintf("%s%04d", obj.GetGenerateName(), w.uidN))
				}
				if ct := obj.GetCreationTimestamp(); ct.IsZero() {
					obj.SetCreationTimestamp(metav1.NewTime(w.Clock.Now()))
				}
				if obj.GetUID() == "" {
					obj.SetUID(w.nextUID(strings.ToLower(kindOf(obj))))
				}
				if obj.GetGeneration() == 0 {
					obj.SetGeneration(1)
				}
				if p, ok := obj.(*corev1.Pod); ok {
					if !containsStr(p.Finalizers, KubeletFinalizer) {
						p.Finalizers = append(p.Finalizers, KubeletFinalizer)
					}
				}
				return c.Create(ctx, obj, opts...)
			})
		},
		Delete: func(ctx context.Context, c client.WithWatch, obj client.Object, opts ...client.DeleteOption) error {
			do := &client.DeleteOptions{}
			do.ApplyOptions(opts)
			grace := -1
			if do.GracePeriodSeconds != nil {
				grace = int(*do.GracePeriodSeconds)
			}
			return w.write(ctx, Call{Verb: "delete", Kind: kindOf(obj), Name: obj.GetName()}, obj, grace, func() error {
				return w.deleteLocked(ctx, c, obj, grace, opts...)
			})
		},
		Update: func(ctx context.Context, c client.WithWatch, obj client.Object, opts ...client.UpdateOption) error {
			return w.write(ctx, Call{Verb: "update", Kind: kindOf(obj), Name: obj.GetName()}, obj, -1, func() error { return c.Update(ctx, obj, opts...) })
		},
		Patch: func(ctx context.Context, c client.WithWatch, obj client.Object, patch client.Patch, opts ...client.PatchOption) error {
			return w.write(ctx, Call{Verb: "patch", Kind: kindOf(obj), Name: obj.GetName()}, obj, -1, func() error { return c.Patch(ctx, obj, patch, opts...) })
		},
		SubResourcePatch: func(ctx context.Context, c client.Client, sub string, obj client.Object, patch client.Patch, opts ...client.SubResourcePatchOption) error {
			return w.write(ctx, Call{Verb: "patch", Kind: kindOf(obj), Name: obj.GetName(), Sub: sub}, obj, -1, func() error {
				return c.SubResource(sub).Patch(ctx, obj, patch, opts...)
			})
		},
		SubResourceUpdate: func(ctx context.Context, c client.Client, sub string, obj client.Object, opts ...client.SubResourceUpdateOption) error {
			return w.write(ctx, Call{Verb: "update", Kind: kindOf(obj), Name: obj.GetName(), Sub: sub}, obj, -1, func() error {
				return c.SubResource(sub).Update(ctx, obj, opts...)
			})
		},
		SubResourceCreate: func(ctx context.Context, c client.Client, sub string, obj client.Object, subObj client.Object, opts ...client.SubResourceCreateOption) error {
			if sub != "eviction" {
				return c.SubResource(sub).Create(ctx, obj, subObj, opts...)
			}
			return w.write(ctx, Call{Verb: "evict", Kind: kindOf(obj), Name: obj.GetName(), Sub: sub}, obj, -1, func() error {
				return w.evictLocked(ctx, obj.(*corev1.Pod), subObj.(*policyv1.Eviction))
			})
		},
	}
}

func containsStr(ss []string, s string) bool {
	for _, x := range ss {
		if x == s {
			return true
		}
	}
	return false
}

// deleteLocked: API-server delete semantics with virtual time. Objects with finalizers get a
// deletionTimestamp of now (+ grace period for pods); others disappear.
func (w *World) deleteLocked(ctx context.Context, c client.Client, obj client.Object, grace int, opts ...client.DeleteOption) error {
	cur, ok := w.currentLocked(obj)
	if !ok {
		return apierrors.NewNotFound(schema.GroupResource{Resource: strings.ToLower(kindOf(obj))}, obj.GetName())
	}
	do := &client.DeleteOptions{}
	do.ApplyOptions(opts)
	if do.Preconditions != nil && do.Preconditions.UID != nil && *do.Preconditions.UID != cur.GetUID() {
		return apierrors.NewConflict(schema.GroupResource{Resource: strings.ToLower(kindOf(obj))}, obj.GetName(), fmt.Errorf("uid precondition"))
	}
	already := !cur.GetDeletionTimestamp().IsZero()
	if err := c.Delete(ctx, obj, opts...); err != nil {
		return err
	}
	after, ok := w.currentLocked(obj)
	if !ok {
		return nil // no finalizers: gone
	}
	g := 0
	if p, isPod := after.(*corev1.Pod); isPod {
		g = 30
		if p.Spec.TerminationGracePeriodSeconds != nil {
			g = int(*p.Spec.TerminationGracePeriodSeconds)
		}
		if grace >= 0 {
			g = grace
		}
	}
	ts := metav1.NewTime(w.Clock.Now().Add(time.Duration(g) * time.Second))
	if already {
		// a second delete may only shorten the remaining time (API-server semantics for pods)
		if cur.GetDeletionTimestamp().Time.Before(ts.Time) {
			ts = *cur.GetDeletionTimestamp()
		}
	}
	after.SetDeletionTimestamp(&ts)
	w.rawUpdate(after)
	return nil
}

// evictLocked implements the eviction sub-resource with PodDisruptionBudget semantics.
func (w *World) evictLocked(ctx context.Context, pod *corev1.Pod, ev *policyv1.Eviction) error {
	cur := &corev1.Pod{}
	if err := w.base.Get(ctx, client.ObjectKeyFromObject(pod), cur); err != nil {
		return err
	}
	if ev.DeleteOptions != nil && ev.DeleteOptions.Preconditions != nil && ev.DeleteOptions.Preconditions.UID != nil &&
		*ev.DeleteOptions.Preconditions.UID != cur.UID {
		return apierrors.NewConflict(schema.GroupResource{Resource: "pods"}, pod.Name, fmt.Errorf("uid precondition"))
	}
	pdbs := &policyv1.PodDisruptionBudgetList{}
	if err := w.base.List(ctx, pdbs, client.InNamespace(cur.Namespace)); err != nil {
		return err
	}
	var matching []policyv1.PodDisruptionBudget
	for _, p := range pdbs.Items {
		sel, err := metav1.LabelSelectorAsSelector(p.Spec.Selector)
		if err != nil || sel.Empty() && p.Spec.Selector == nil {
			continue
		}
		if sel.Matches(labels.Set(cur.Labels)) {
			matching = append(matching, p)
		}
	}
	terminal := cur.Status.Phase == corev1.PodSucceeded || cur.Status.Phase == corev1.PodFailed
	if !terminal && cur.DeletionTimestamp.IsZero() {
		if len(matching) > 1 {
			return apierrors.NewInternalError(fmt.Errorf("this pod has more than one PodDisruptionBudget, which the eviction subresource does not support"))
		}
		if len(matching) == 1 && matching[0].Status.DisruptionsAllowed <= 0 {
			return apierrors.NewTooManyRequests("Cannot evict pod as it would violate the pod's disruption budget.", 0)
		}
	}
	grace := -1
	if ev.DeleteOptions != nil && ev.DeleteOptions.GracePeriodSeconds != nil {
		grace = int(*ev.DeleteOptions.GracePeriodSeconds)
	}
	return w.deleteLocked(ctx, w.base, cur, grace)
}

// ---------------------------------------------------------------- environment-side helpers (driver only)

// EnvCreate stores an object on behalf of the environment (kubelet, user, other controllers).
func (w *World) EnvCreate(obj client.Object) {
	if err := w.Client.Create(WithActor(context.Background(), "env"), obj); err != nil {
		panic(fmt.Sprintf("env create %T %s: %v", obj, obj.GetName(), err))
	}
}

// EnvMutate reads the stored object, applies f and writes it back unconditionally (spec+status+metadata).
func (w *World) EnvMutate(obj client.Object, what string, f func()) bool {
	w.mu.Lock()
	defer w.mu.Unlock()
	if err := w.base.Get(context.Background(), client.ObjectKeyFromObject(obj), obj); err != nil {
		return false
	}
	f()
	rv, _ := strconv.Atoi(obj.GetResourceVersion())
	obj.SetResourceVersion(strconv.Itoa(rv + 1))
	w.rawUpdate(obj)
	post := trace.M{"exists": false}
	if c2, ok := w.currentLocked(obj); ok {
		post = Abs(c2)
	}
	w.emitLocked(trace.M{"e": "Env", "what": what, "kind": kindOf(obj), "name": obj.GetName(), "post": post})
	return true
}

// EnvRemove makes an object disappear regardless of finalizers (kubelet finished a pod, instance vanished…).
func (w *World) EnvRemove(obj client.Object, what string) bool {
	w.mu.Lock()
	defer w.mu.Unlock()
	cur, ok := w.currentLocked(obj)
	if !ok {
		return false
	}
	if err := w.Raw.Delete(w.gvr(cur), cur.GetNamespace(), cur.GetName()); err != nil {
		panic(err)
	}
	w.emitLocked(trace.M{"e": "Env", "what": what, "kind": kindOf(obj), "name": obj.GetName(), "post": trace.M{"exists": false}})
	return true
}

// Get fetches the current stored object silently (driver-side observation, no event).
func (w *World) Get(obj client.Object) bool {
	return w.base.Get(context.Background(), client.ObjectKeyFromObject(obj), obj) == nil
}

// List lists silently (driver-side observation).
func (w *World) List(list client.ObjectList, opts ...client.ListOption) {
	if err := w.base.List(context.Background(), list, opts...); err != nil {
		panic(err)
	}
}
