package world

import (
	"time"

	"github.com/samber/lo"
	corev1 "k8s.io/api/core/v1"
	"k8s.io/apimachinery/pkg/api/resource"
	metav1 "k8s.io/apimachinery/pkg/apis/meta/v1"
	"k8s.io/apimachinery/pkg/types"

	v1 "sigs.k8s.io/karpenter/pkg/apis/v1"
	"sigs.k8s.io/karpenter/pkg/test/v1alpha1"
)

// The harness builds its own objects: cluster-scoped kinds carry no namespace and NodeClaims no
// provider id (the repository's test helpers add both, which silently changes behaviour on the fake).

const NodeClassName = "default"

func NodeClass() *v1alpha1.TestNodeClass {
	nc := &v1alpha1.TestNodeClass{ObjectMeta: metav1.ObjectMeta{Name: NodeClassName}}
	nc.Status.Conditions = nil
	return nc
}

func NodeClassRef() *v1.NodeClassReference {
	return &v1.NodeClassReference{Group: v1alpha1.Group, Kind: "TestNodeClass", Name: NodeClassName}
}

func RL(cpuMilli, memMi int) corev1.ResourceList {
	rl := corev1.ResourceList{}
	if cpuMilli > 0 {
		rl[corev1.ResourceCPU] = *resource.NewMilliQuantity(int64(cpuMilli), resource.DecimalSI)
	}
	if memMi > 0 {
		rl[corev1.ResourceMemory] = *resource.NewQuantity(int64(memMi)<<20, resource.BinarySI)
	}
	return rl
}

// NodePool returns a dynamic NodePool with sane defaults.
func NodePool(name string) *v1.NodePool {
	return &v1.NodePool{
		ObjectMeta: metav1.ObjectMeta{Name: name},
		Spec: v1.NodePoolSpec{
			Template: v1.NodeClaimTemplate{
				Spec: v1.NodeClaimTemplateSpec{
					NodeClassRef: NodeClassRef(),
					Requirements: []v1.NodeSelectorRequirementWithMinValues{},
					ExpireAfter:  v1.MustParseNillableDuration("Never"),
				},
			},
			Disruption: v1.Disruption{
				ConsolidationPolicy: v1.ConsolidationPolicyWhenEmptyOrUnderutilized,
				ConsolidateAfter:    v1.MustParseNillableDuration("0s"),
				Budgets:             []v1.Budget{{Nodes: "100%"}},
			},
		},
	}
}

// NodeClaim returns a bare NodeClaim owned by the pool (no provider id, no status).
func NodeClaim(name string, pool *v1.NodePool) *v1.NodeClaim {
	nc := &v1.NodeClaim{
		ObjectMeta: metav1.ObjectMeta{Name: name, Labels: map[string]string{}, Annotations: map[string]string{}},
		Spec: v1.NodeClaimSpec{
			NodeClassRef: NodeClassRef(),
			Requirements: []v1.NodeSelectorRequirementWithMinValues{},
			Resources:    v1.ResourceRequirements{Requests: RL(100, 64)},
			ExpireAfter:  v1.MustParseNillableDuration("Never"),
		},
	}
	if pool != nil {
		nc.Labels[v1.NodePoolLabelKey] = pool.Name
		nc.OwnerReferences = []metav1.OwnerReference{{APIVersion: "karpenter.sh/v1", Kind: "NodePool", Name: pool.Name, UID: pool.UID,
			BlockOwnerDeletion: lo.ToPtr(true)}}
		nc.Annotations[v1.NodePoolHashAnnotationKey] = pool.Hash()
		nc.Annotations[v1.NodePoolHashVersionAnnotationKey] = v1.NodePoolHashVersion
	}
	return nc
}

// NodeFor returns the Node a kubelet would register for a launched NodeClaim.
func NodeFor(nc *v1.NodeClaim, name string, unregisteredTaint bool, extraTaints ...corev1.Taint) *corev1.Node {
	n := &corev1.Node{
		ObjectMeta: metav1.ObjectMeta{Name: name, Labels: map[string]string{corev1.LabelHostname: name}},
		Spec:       corev1.NodeSpec{ProviderID: nc.Status.ProviderID},
		Status: corev1.NodeStatus{
			Capacity:    nc.Status.Capacity.DeepCopy(),
			Allocatable: nc.Status.Allocatable.DeepCopy(),
		},
	}
	if unregisteredTaint {
		n.Spec.Taints = append(n.Spec.Taints, v1.UnregisteredNoExecuteTaint)
	}
	n.Spec.Taints = append(n.Spec.Taints, extraTaints...)
	return n
}

func SetNodeReady(n *corev1.Node, ready bool, at time.Time) {
	st := corev1.ConditionFalse
	if ready {
		st = corev1.ConditionTrue
	}
	for i := range n.Status.Conditions {
		if n.Status.Conditions[i].Type == corev1.NodeReady {
			if n.Status.Conditions[i].Status != st {
				n.Status.Conditions[i].Status = st
				n.Status.Conditions[i].LastTransitionTime = metav1.NewTime(at)
			}
			return
		}
	}
	n.Status.Conditions = append(n.Status.Conditions, corev1.NodeCondition{Type: corev1.NodeReady, Status: st,
		LastTransitionTime: metav1.NewTime(at)})
}

// Pod returns a running-shaped pod (phase set by caller through options).
type PodOpts struct {
	Name, Namespace, Node string
	CPU, MemMi            int
	Labels                map[string]string
	Annotations           map[string]string
	Owner                 string // "", daemonset, replicaset, statefulset, node
	Phase                 corev1.PodPhase
	TGPS                  int // <0 = unset
	PriorityClass         string
	Tolerations           []corev1.Toleration
	HostPorts             []int32
}

func Pod(o PodOpts) *corev1.Pod {
	ns := o.Namespace
	if ns == "" {
		ns = "default"
	}
	p := &corev1.Pod{
		ObjectMeta: metav1.ObjectMeta{Name: o.Name, Namespace: ns, Labels: o.Labels, Annotations: o.Annotations},
		Spec: corev1.PodSpec{
			NodeName:          o.Node,
			PriorityClassName: o.PriorityClass,
			Tolerations:       o.Tolerations,
			Containers: []corev1.Container{{Name: "c", Image: "i",
				Resources: corev1.ResourceRequirements{Requests: RL(o.CPU, o.MemMi)}}},
		},
		Status: corev1.PodStatus{Phase: o.Phase},
	}
	if o.TGPS >= 0 {
		p.Spec.TerminationGracePeriodSeconds = lo.ToPtr(int64(o.TGPS))
	}
	for _, hp := range o.HostPorts {
		p.Spec.Containers[0].Ports = append(p.Spec.Containers[0].Ports, corev1.ContainerPort{HostPort: hp, ContainerPort: hp, Protocol: corev1.ProtocolTCP})
	}
	switch o.Owner {
	case "daemonset":
		p.OwnerReferences = []metav1.OwnerReference{{APIVersion: "apps/v1", Kind: "DaemonSet", Name: "ds-" + o.Name, UID: types.UID("ds-" + o.Name), Controller: lo.ToPtr(true), BlockOwnerDeletion: lo.ToPtr(true)}}
	case "replicaset":
		p.OwnerReferences = []metav1.OwnerReference{{APIVersion: "apps/v1", Kind: "ReplicaSet", Name: "rs-" + o.Name, UID: types.UID("rs-" + o.Name), Controller: lo.ToPtr(true), BlockOwnerDeletion: lo.ToPtr(true)}}
	case "statefulset":
		p.OwnerReferences = []metav1.OwnerReference{{APIVersion: "apps/v1", Kind: "StatefulSet", Name: "ss-" + o.Name, UID: types.UID("ss-" + o.Name), Controller: lo.ToPtr(true), BlockOwnerDeletion: lo.ToPtr(true)}}
	case "node":
		p.OwnerReferences = []metav1.OwnerReference{{APIVersion: "v1", Kind: "Node", Name: o.Node, UID: types.UID("node-" + o.Node), Controller: lo.ToPtr(true)}}
	}
	if p.Status.Phase == "" {
		p.Status.Phase = corev1.PodRunning
	}
	return p
}
