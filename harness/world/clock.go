package world

import (
	"sync"
	"time"

	"k8s.io/utils/clock"
)

// Epoch is the scenario epoch; all logged times are whole seconds since Epoch.
var Epoch = time.Date(2030, 1, 1, 0, 0, 0, 0, time.UTC)

// VClock is a virtual clock: Sleep/After/timers advance virtual time immediately, so controllers that
// wait (lifecycle 1s, validation 15s) run without wall-clock delay. Every advance is observable
// through OnTick.
type VClock struct {
	mu     sync.Mutex
	now    time.Time
	OnTick func(to time.Time)
	// OnNow, if set, is called (outside the lock) on every Now(): a driver can use a clock read that the code under
	// test performs between two in-memory steps as a scheduling point (no hook in /repo needed).
	OnNow func()
}

var _ clock.Clock = (*VClock)(nil)

func NewClock() *VClock { return &VClock{now: Epoch} }

func (c *VClock) Now() time.Time {
	c.mu.Lock()
	f := c.OnNow
	c.mu.Unlock()
	if f != nil {
		f()
	}
	c.mu.Lock()
	defer c.mu.Unlock()
	return c.now
}

// SetOnNow installs or removes (nil) the Now() callback.
func (c *VClock) SetOnNow(f func()) { c.mu.Lock(); c.OnNow = f; c.mu.Unlock() }
func (c *VClock) Since(t time.Time) time.Duration { return c.Now().Sub(t) }
func (c *VClock) Step(d time.Duration) {
	if d <= 0 {
		return
	}
	c.mu.Lock()
	c.now = c.now.Add(d)
	n := c.now
	f := c.OnTick
	c.mu.Unlock()
	if f != nil {
		f(n)
	}
}
func (c *VClock) SetTo(t time.Time) { c.Step(t.Sub(c.Now())) }

// Sec returns virtual seconds since Epoch.
func (c *VClock) Sec() int { return int(c.Now().Sub(Epoch) / time.Second) }

func (c *VClock) Sleep(d time.Duration) { c.Step(d) }
func (c *VClock) After(d time.Duration) <-chan time.Time {
	c.Step(d)
	ch := make(chan time.Time, 1)
	ch <- c.Now()
	return ch
}
func (c *VClock) Tick(d time.Duration) <-chan time.Time { return c.After(d) }

type vtimer struct {
	c  *VClock
	ch chan time.Time
}

func (t *vtimer) C() <-chan time.Time { return t.ch }
func (t *vtimer) Stop() bool          { return false }
func (t *vtimer) Reset(d time.Duration) bool {
	t.c.Step(d)
	select {
	case t.ch <- t.c.Now():
	default:
	}
	return false
}
func (c *VClock) NewTimer(d time.Duration) clock.Timer {
	c.Step(d)
	t := &vtimer{c: c, ch: make(chan time.Time, 1)}
	t.ch <- c.Now()
	return t
}
func (c *VClock) NewTicker(d time.Duration) clock.Ticker { return &vticker{c.After(d)} }

type vticker struct{ ch <-chan time.Time }

func (t *vticker) C() <-chan time.Time { return t.ch }
func (t *vticker) Stop()               {}
