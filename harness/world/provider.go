package world

import (
	"context"
	"fmt"
	"sort"
	"sync"

	"github.com/awslabs/operatorpkg/status"
	"github.com/samber/lo"
	corev1 "k8s.io/api/core/v1"
	"k8s.io/apimachinery/pkg/api/resource"
	metav1 "k8s.io/apimachinery/pkg/apis/meta/v1"

	v1 "sigs.k8s.io/karpenter/pkg/apis/v1"
	"sigs.k8s.io/karpenter/pkg/cloudprovider"
	"sigs.k8s.io/karpenter/pkg/scheduling"
	"sigs.k8s.io/karpenter/pkg/test/v1alpha1"
	"sigs.k8s.io/karpenter/pkg/utils/resources"

	"verif/harness/trace"
)

func init() {
	// same registration the repository's fake provider performs
	v1.WellKnownLabels = v1.WellKnownLabels.Insert(v1alpha1.LabelReservationID)
	cloudprovider.ReservationIDLabel = v1alpha1.LabelReservationID
	cloudprovider.ReservedCapacityLabels.Insert(v1alpha1.LabelReservationID)
}

// Instance is one cloud instance in the harness provider.
type Instance struct {
	ProviderID   string
	Claim        string
	Type         string
	Zone         string
	CapacityType string
	Reservation  string
	State        string // running | terminating | gone
	NodeClaim    *v1.NodeClaim
}

// Provider implements cloudprovider.CloudProvider with an explicit instance table, a per-call
// fault plan and an explicit launch choice, all driven by the behaviour being replayed.
type Provider struct {
	w  *World
	mu sync.Mutex

	Types        []*cloudprovider.InstanceType
	TypesForPool map[string][]*cloudprovider.InstanceType
	Instances    map[string]*Instance
	n            int

	// CreateOutcomes is consumed front-first: "ok" | "ICE" | "NCNR" | "err" | "createErr". Empty = ok.
	CreateOutcomes []string
	// DeleteOutcomes / GetOutcomes / ListOutcomes: "ok" (default semantics) | "err"; ListOutcomes also "notfound" |
	// "notfoundWrapped" (the call fails with a NodeClaimNotFoundError-typed error).
	DeleteOutcomes []string
	GetOutcomes    []string
	ListOutcomes   []string
	// InstantTerminate: Delete removes the instance at once (NotFound on the next call) instead of
	// moving it to "terminating" until the environment's InstanceGone step.
	InstantTerminate bool
	// Choice picks among the permitted (type, offering) launches; nil = cheapest.
	Choice  func(nc *v1.NodeClaim, opts []LaunchOption) LaunchOption
	Drifted cloudprovider.DriftReason
	Repair  []cloudprovider.RepairPolicy
	// CreateCount counts successful creates per NodeClaim UID.
	CreateCount map[string]int
}

type LaunchOption struct {
	Type     *cloudprovider.InstanceType
	Offering *cloudprovider.Offering
}

var _ cloudprovider.CloudProvider = (*Provider)(nil)

func NewProvider(w *World) *Provider {
	return &Provider{w: w, Instances: map[string]*Instance{}, TypesForPool: map[string][]*cloudprovider.InstanceType{},
		CreateCount: map[string]int{}}
}

func pop(q *[]string) string {
	if len(*q) == 0 {
		return "ok"
	}
	x := (*q)[0]
	*q = (*q)[1:]
	return x
}

func (p *Provider) table() []trace.M {
	out := []trace.M{}
	ids := lo.Keys(p.Instances)
	sort.Strings(ids)
	for _, id := range ids {
		i := p.Instances[id]
		out = append(out, trace.M{"pid": i.ProviderID, "claim": i.Claim, "type": i.Type, "zone": i.Zone,
			"capacityType": i.CapacityType, "reservation": orDash(i.Reservation), "state": i.State})
	}
	return out
}

func (p *Provider) emit(ctx context.Context, call, arg, uid, errS, result string) {
	p.w.Emit(trace.M{"e": "Prov", "actor": actor(ctx), "call": call, "arg": orDash(arg), "uid": orDash(uid),
		"err": errS, "result": orDash(result), "post": p.table()})
}

// Options lists every (type, offering) the NodeClaim's request permits.
func (p *Provider) Options(ctx context.Context, nc *v1.NodeClaim) []LaunchOption {
	reqs := scheduling.NewNodeSelectorRequirementsWithMinValues(nc.Spec.Requirements...)
	np := &v1.NodePool{ObjectMeta: metav1.ObjectMeta{Name: nc.Labels[v1.NodePoolLabelKey]}}
	its, _ := p.GetInstanceTypes(ctx, np)
	var out []LaunchOption
	for _, it := range its {
		if !reqs.IsCompatible(it.Requirements, scheduling.AllowUndefinedWellKnownLabels) {
			continue
		}
		for _, ao := range it.AllocatableOfferingsList() {
			if !resources.Fits(nc.Spec.Resources.Requests, ao.Allocatable) {
				continue
			}
			for _, o := range ao.Offerings {
				if o.Available && reqs.IsCompatible(o.Requirements, scheduling.AllowUndefinedWellKnownLabels) {
					out = append(out, LaunchOption{Type: it, Offering: o})
				}
			}
		}
	}
	sort.SliceStable(out, func(i, j int) bool { return out[i].Offering.Price < out[j].Offering.Price })
	return out
}

func (p *Provider) Create(ctx context.Context, nc *v1.NodeClaim) (*v1.NodeClaim, error) {
	p.mu.Lock()
	defer p.mu.Unlock()
	switch pop(&p.CreateOutcomes) {
	case "ICE":
		p.emit(ctx, "Create", nc.Name, string(nc.UID), "ICE", "")
		return nil, cloudprovider.NewInsufficientCapacityError(fmt.Errorf("injected insufficient capacity"))
	case "NCNR":
		p.emit(ctx, "Create", nc.Name, string(nc.UID), "NCNR", "")
		return nil, cloudprovider.NewNodeClassNotReadyError(fmt.Errorf("injected nodeclass not ready"))
	case "ICEw": // a capacity error wrapped in a CreateError, as real providers return it
		p.emit(ctx, "Create", nc.Name, string(nc.UID), "ICE", "")
		return nil, cloudprovider.NewCreateError(cloudprovider.NewInsufficientCapacityError(fmt.Errorf("injected insufficient capacity")),
			"InsufficientCapacity", "injected insufficient capacity")
	case "NCNRw":
		p.emit(ctx, "Create", nc.Name, string(nc.UID), "NCNR", "")
		return nil, cloudprovider.NewCreateError(cloudprovider.NewNodeClassNotReadyError(fmt.Errorf("injected nodeclass not ready")),
			"NodeClassNotReady", "injected nodeclass not ready")
	case "err":
		p.emit(ctx, "Create", nc.Name, string(nc.UID), "Error", "")
		return nil, fmt.Errorf("injected provider create error")
	case "createErr":
		p.emit(ctx, "Create", nc.Name, string(nc.UID), "Error", "")
		return nil, cloudprovider.NewCreateError(fmt.Errorf("injected"), "InjectedReason", "injected message")
	}
	opts := p.Options(ctx, nc)
	if len(opts) == 0 {
		p.emit(ctx, "Create", nc.Name, string(nc.UID), "ICE", "no-option")
		return nil, cloudprovider.NewInsufficientCapacityError(fmt.Errorf("no launch option satisfies the request"))
	}
	ch := opts[0]
	if p.Choice != nil {
		ch = p.Choice(nc, opts)
	}
	labels := map[string]string{}
	for key, r := range ch.Type.Requirements {
		if r.Operator() == corev1.NodeSelectorOpIn && r.Len() == 1 {
			labels[key] = r.Values()[0]
		}
	}
	for key, r := range ch.Offering.Requirements {
		if r.Operator() == corev1.NodeSelectorOpIn && r.Len() == 1 {
			labels[key] = r.Values()[0]
		}
	}
	p.n++
	pid := fmt.Sprintf("verif://%s/%d", nc.Name, p.n)
	alloc := ch.Type.Allocatable()
	capa := ch.Type.Capacity
	for _, ao := range ch.Type.AllocatableOfferingsList() {
		for _, o := range ao.Offerings {
			if o == ch.Offering {
				alloc = ao.Allocatable
				if len(o.CapacityOverride) > 0 {
					capa = lo.Assign(ch.Type.Capacity, o.CapacityOverride)
				}
			}
		}
	}
	created := &v1.NodeClaim{
		ObjectMeta: metav1.ObjectMeta{Name: nc.Name, Labels: lo.Assign(labels, nc.Labels), Annotations: nc.Annotations},
		Spec:       *nc.Spec.DeepCopy(),
		Status: v1.NodeClaimStatus{
			ProviderID:  pid,
			Capacity:    lo.PickBy(capa, func(_ corev1.ResourceName, v resource.Quantity) bool { return !resources.IsZero(v) }),
			Allocatable: lo.PickBy(alloc, func(_ corev1.ResourceName, v resource.Quantity) bool { return !resources.IsZero(v) }),
		},
	}
	inst := &Instance{ProviderID: pid, Claim: nc.Name, Type: ch.Type.Name, Zone: ch.Offering.Zone(),
		CapacityType: ch.Offering.CapacityType(), State: "running", NodeClaim: created}
	if inst.CapacityType == v1.CapacityTypeReserved {
		inst.Reservation = ch.Offering.ReservationID()
	}
	p.Instances[pid] = inst
	p.CreateCount[string(nc.UID)]++
	p.emit(ctx, "Create", nc.Name, string(nc.UID), "-", pid)
	return created.DeepCopy(), nil
}

func (p *Provider) Delete(ctx context.Context, nc *v1.NodeClaim) error {
	p.mu.Lock()
	defer p.mu.Unlock()
	if pop(&p.DeleteOutcomes) == "err" {
		p.emit(ctx, "Delete", nc.Status.ProviderID, string(nc.UID), "Error", "")
		return fmt.Errorf("injected provider delete error")
	}
	i, ok := p.Instances[nc.Status.ProviderID]
	if !ok || i.State == "gone" {
		p.emit(ctx, "Delete", nc.Status.ProviderID, string(nc.UID), "NotFound", "")
		return cloudprovider.NewNodeClaimNotFoundError(fmt.Errorf("no instance with provider id %q", nc.Status.ProviderID))
	}
	if p.InstantTerminate {
		i.State = "gone"
	} else {
		i.State = "terminating"
	}
	p.emit(ctx, "Delete", nc.Status.ProviderID, string(nc.UID), "-", i.State)
	return nil
}

func (p *Provider) Get(ctx context.Context, id string) (*v1.NodeClaim, error) {
	p.mu.Lock()
	defer p.mu.Unlock()
	if pop(&p.GetOutcomes) == "err" {
		p.emit(ctx, "Get", id, "", "Error", "")
		return nil, fmt.Errorf("injected provider get error")
	}
	i, ok := p.Instances[id]
	if !ok || i.State == "gone" {
		p.emit(ctx, "Get", id, "", "NotFound", "")
		return nil, cloudprovider.NewNodeClaimNotFoundError(fmt.Errorf("no instance with provider id %q", id))
	}
	p.emit(ctx, "Get", id, "", "-", i.State)
	out := i.NodeClaim.DeepCopy()
	if i.State == "terminating" {
		now := metav1.NewTime(p.w.Clock.Now())
		out.DeletionTimestamp = &now
	}
	return out, nil
}

func (p *Provider) List(ctx context.Context) ([]*v1.NodeClaim, error) {
	p.mu.Lock()
	defer p.mu.Unlock()
	switch pop(&p.ListOutcomes) {
	case "err":
		p.emit(ctx, "List", "", "", "Error", "")
		return nil, fmt.Errorf("injected provider list error")
	case "notfound": // a failed List whose error is NotFound-typed (the call failed; nothing was listed)
		p.emit(ctx, "List", "", "", "NotFound", "")
		return nil, cloudprovider.NewNodeClaimNotFoundError(fmt.Errorf("injected: instance vanished while listing"))
	case "notfoundWrapped":
		p.emit(ctx, "List", "", "", "NotFound", "")
		return nil, fmt.Errorf("listing instances, %w", cloudprovider.NewNodeClaimNotFoundError(fmt.Errorf("injected: instance vanished while listing")))
	}
	var out []*v1.NodeClaim
	ids := lo.Keys(p.Instances)
	sort.Strings(ids)
	for _, id := range ids {
		if i := p.Instances[id]; i.State != "gone" {
			out = append(out, i.NodeClaim.DeepCopy())
		}
	}
	p.emit(ctx, "List", "", "", "-", fmt.Sprint(len(out)))
	return out, nil
}

func (p *Provider) GetInstanceTypes(_ context.Context, np *v1.NodePool) ([]*cloudprovider.InstanceType, error) {
	if np != nil {
		if v, ok := p.TypesForPool[np.Name]; ok {
			return v, nil
		}
	}
	return p.Types, nil
}

func (p *Provider) IsDrifted(context.Context, *v1.NodeClaim) (cloudprovider.DriftReason, error) {
	return p.Drifted, nil
}
func (p *Provider) RepairPolicies() []cloudprovider.RepairPolicy { return p.Repair }
func (p *Provider) Name() string                                 { return "verif" }
func (p *Provider) GetSupportedNodeClasses() []status.Object {
	return []status.Object{&v1alpha1.TestNodeClass{}}
}

// EnvInstanceGone: the cloud finished terminating the instance (or it vanished on its own).
func (p *Provider) EnvInstanceGone(pid string) bool {
	p.mu.Lock()
	defer p.mu.Unlock()
	i, ok := p.Instances[pid]
	if !ok || i.State == "gone" {
		return false
	}
	i.State = "gone"
	p.w.Emit(trace.M{"e": "Prov", "actor": "env", "call": "InstanceGone", "arg": pid, "uid": "-", "err": "-", "result": "gone", "post": p.table()})
	return true
}

// Running reports whether an instance exists and is not gone.
func (p *Provider) Exists(pid string) bool {
	p.mu.Lock()
	defer p.mu.Unlock()
	i, ok := p.Instances[pid]
	return ok && i.State != "gone"
}

// ---------------------------------------------------------------- catalog construction

// OfferingSpec / TypeSpec describe a catalog in small integers (milli-CPU, MiB, price in 1/1000).
type OfferingSpec struct {
	Zone, CapacityType string
	Price              int // 1/1000
	Available          bool
	ReservationID      string
	ReservationCap     int
	CPUOverride        int // milli, 0 = none
}
type TypeSpec struct {
	Name        string
	CPU         int // milli
	MemMi       int
	Pods        int
	Arch        string
	Offerings   []OfferingSpec
	Extra       map[string]string // extra single-valued requirement labels
	OverheadCPU int
	ExtraRes    map[string]int // extended resources in capacity
}

func MakeType(s TypeSpec) *cloudprovider.InstanceType {
	arch := s.Arch
	if arch == "" {
		arch = "amd64"
	}
	pods := s.Pods
	if pods == 0 {
		pods = 110
	}
	zones, cts := []string{}, []string{}
	var offs cloudprovider.Offerings
	for _, o := range s.Offerings {
		zones = append(zones, o.Zone)
		cts = append(cts, o.CapacityType)
		reqs := scheduling.NewRequirements(
			scheduling.NewRequirement(v1.CapacityTypeLabelKey, corev1.NodeSelectorOpIn, o.CapacityType),
			scheduling.NewRequirement(corev1.LabelTopologyZone, corev1.NodeSelectorOpIn, o.Zone),
		)
		if o.ReservationID != "" {
			reqs.Add(scheduling.NewRequirement(v1alpha1.LabelReservationID, corev1.NodeSelectorOpIn, o.ReservationID))
		}
		off := &cloudprovider.Offering{Requirements: reqs, Price: float64(o.Price) / 1000.0, Available: o.Available,
			ReservationCapacity: o.ReservationCap}
		if o.CPUOverride > 0 {
			off.CapacityOverride = corev1.ResourceList{corev1.ResourceCPU: *resource.NewMilliQuantity(int64(o.CPUOverride), resource.DecimalSI)}
		}
		offs = append(offs, off)
	}
	reqs := scheduling.NewRequirements(
		scheduling.NewRequirement(corev1.LabelInstanceTypeStable, corev1.NodeSelectorOpIn, s.Name),
		scheduling.NewRequirement(corev1.LabelArchStable, corev1.NodeSelectorOpIn, arch),
		scheduling.NewRequirement(corev1.LabelOSStable, corev1.NodeSelectorOpIn, "linux"),
		scheduling.NewRequirement(corev1.LabelTopologyZone, corev1.NodeSelectorOpIn, lo.Uniq(zones)...),
		scheduling.NewRequirement(v1.CapacityTypeLabelKey, corev1.NodeSelectorOpIn, lo.Uniq(cts)...),
	)
	for k, v := range s.Extra {
		reqs.Add(scheduling.NewRequirement(k, corev1.NodeSelectorOpIn, v))
	}
	it := &cloudprovider.InstanceType{
		Name:         s.Name,
		Requirements: reqs,
		Offerings:    offs,
		Capacity: corev1.ResourceList{
			corev1.ResourceCPU:    *resource.NewMilliQuantity(int64(s.CPU), resource.DecimalSI),
			corev1.ResourceMemory: *resource.NewQuantity(int64(s.MemMi)<<20, resource.BinarySI),
			corev1.ResourcePods:   *resource.NewQuantity(int64(pods), resource.DecimalSI),
		},
		Overhead: &cloudprovider.InstanceTypeOverhead{},
	}
	for k, v := range s.ExtraRes {
		it.Capacity[corev1.ResourceName(k)] = *resource.NewQuantity(int64(v), resource.DecimalSI)
	}
	if s.OverheadCPU > 0 {
		it.Overhead.KubeReserved = corev1.ResourceList{corev1.ResourceCPU: *resource.NewMilliQuantity(int64(s.OverheadCPU), resource.DecimalSI)}
	}
	return it
}

// DefaultCatalog: three sizes, two zones, spot + on-demand.
func DefaultCatalog() []*cloudprovider.InstanceType {
	mk := func(name string, cpu, mem, price int) *cloudprovider.InstanceType {
		return MakeType(TypeSpec{Name: name, CPU: cpu, MemMi: mem, Offerings: []OfferingSpec{
			{Zone: "zone-a", CapacityType: "on-demand", Price: price, Available: true},
			{Zone: "zone-b", CapacityType: "on-demand", Price: price, Available: true},
			{Zone: "zone-a", CapacityType: "spot", Price: price * 6 / 10, Available: true},
			{Zone: "zone-b", CapacityType: "spot", Price: price * 7 / 10, Available: true},
		}})
	}
	return []*cloudprovider.InstanceType{mk("small", 2000, 4096, 100), mk("medium", 4000, 8192, 200), mk("large", 8000, 16384, 400)}
}
