package world

import (
	"github.com/samber/lo"
	"k8s.io/klog/v2"
	"sort"
	"time"

	corev1 "k8s.io/api/core/v1"
	policyv1 "k8s.io/api/policy/v1"
	storagev1 "k8s.io/api/storage/v1"
	metav1 "k8s.io/apimachinery/pkg/apis/meta/v1"
	"sigs.k8s.io/controller-runtime/pkg/client"

	v1 "sigs.k8s.io/karpenter/pkg/apis/v1"

	"verif/harness/trace"
)

// Sec converts a time to whole seconds since the scenario epoch; -1 for the zero time.
func Sec(t time.Time) int {
	if t.IsZero() {
		return -1
	}
	return int(t.Sub(Epoch) / time.Second)
}

func secPtr(t *metav1.Time) int {
	if t == nil || t.IsZero() {
		return -1
	}
	return Sec(t.Time)
}

func ncCond(nc *v1.NodeClaim, t string) (string, int) {
	for _, c := range nc.Status.Conditions {
		if c.Type == t {
			return string(c.Status), Sec(c.LastTransitionTime.Time)
		}
	}
	return "Absent", -1
}

func taintStrs(ts []corev1.Taint) []trace.M {
	out := []trace.M{}
	for _, t := range ts {
		out = append(out, trace.M{"key": t.Key, "value": orDash(t.Value), "effect": string(t.Effect)})
	}
	sort.Slice(out, func(i, j int) bool {
		return out[i]["key"].(string)+out[i]["effect"].(string) < out[j]["key"].(string)+out[j]["effect"].(string)
	})
	return out
}

func strMap(m map[string]string) map[string]string {
	if m == nil {
		return map[string]string{}
	}
	return m
}

func milli(rl corev1.ResourceList) map[string]int {
	out := map[string]int{}
	for k, q := range rl {
		switch k {
		case corev1.ResourceCPU:
			out[string(k)] = int(q.MilliValue())
		case corev1.ResourceMemory, corev1.ResourceEphemeralStorage:
			out[string(k)] = int(q.Value() / (1 << 20)) // MiB
		default:
			out[string(k)] = int(q.Value())
		}
	}
	return out
}

// Abs is the abstraction function: API object -> the record the specification talks about.
// Every record carries exists=true; an absent object is logged as {"exists": false} (TLC cannot
// compare a record with a string sentinel).
func Abs(o client.Object) trace.M {
	m := abs(o)
	m["exists"] = true
	return m
}

func abs(o client.Object) trace.M {
	switch x := o.(type) {
	case *v1.NodeClaim:
		m := trace.M{"kind": "NodeClaim", "name": x.Name, "uid": string(x.UID), "pool": x.Labels[v1.NodePoolLabelKey],
			"finalizer": containsStr(x.Finalizers, v1.TerminationFinalizer), "deleting": !x.DeletionTimestamp.IsZero(),
			"created": Sec(x.CreationTimestamp.Time), "deletedAt": secPtr(x.DeletionTimestamp),
			"providerID": orDash(x.Status.ProviderID), "nodeName": orDash(x.Status.NodeName),
			"labels": strMap(x.Labels), "annotations": strMap(x.Annotations),
			"taints": taintStrs(x.Spec.Taints), "startupTaints": taintStrs(x.Spec.StartupTaints),
			"requests": milli(x.Spec.Resources.Requests), "capacity": milli(x.Status.Capacity), "allocatable": milli(x.Status.Allocatable),
			"tgp": -1, "expireAfter": -1, "rv": x.ResourceVersion, "gen": int(x.Generation)}
		if x.Spec.TerminationGracePeriod != nil {
			m["tgp"] = int(x.Spec.TerminationGracePeriod.Duration / time.Second)
		}
		if x.Spec.ExpireAfter.Duration != nil {
			m["expireAfter"] = int(*x.Spec.ExpireAfter.Duration / time.Second)
		}
		m["terminationAt"] = -1
		if s, ok := x.Annotations[v1.NodeClaimTerminationTimestampAnnotationKey]; ok {
			if t, err := time.Parse(time.RFC3339, s); err == nil {
				m["terminationAt"] = Sec(t)
			}
		}
		since := map[string]int{}
		for _, c := range []string{v1.ConditionTypeLaunched, v1.ConditionTypeRegistered, v1.ConditionTypeInitialized,
			v1.ConditionTypeDrifted, v1.ConditionTypeConsolidatable, v1.ConditionTypeDrained, v1.ConditionTypeVolumesDetached,
			v1.ConditionTypeInstanceTerminating, v1.ConditionTypeDisruptionReason, v1.ConditionTypeConsistentStateFound} {
			st, t := ncCond(x, c)
			m[lowerFirst(c)] = st
			since[c] = t
		}
		m["condSince"] = since
		return m
	case *corev1.Node:
		ready, readySince := "Absent", -1
		unhealthy := map[string]int{}
		condStatus := map[string]string{}
		for _, c := range x.Status.Conditions {
			if c.Type == corev1.NodeReady {
				ready, readySince = string(c.Status), Sec(c.LastTransitionTime.Time)
			}
			condStatus[string(c.Type)] = string(c.Status)
			unhealthy[string(c.Type)] = Sec(c.LastTransitionTime.Time)
		}
		return trace.M{"kind": "Node", "name": x.Name, "uid": string(x.UID),
			"finalizer": containsStr(x.Finalizers, v1.TerminationFinalizer), "deleting": !x.DeletionTimestamp.IsZero(),
			"deletedAt": secPtr(x.DeletionTimestamp), "created": Sec(x.CreationTimestamp.Time),
			"providerID": orDash(x.Spec.ProviderID), "labels": strMap(x.Labels), "annotations": strMap(x.Annotations),
			"taints": taintStrs(x.Spec.Taints), "unschedulable": x.Spec.Unschedulable,
			"ready": ready, "readySince": readySince, "conds": condStatus, "condSince": unhealthy,
			"allocatable": milli(x.Status.Allocatable), "capacity": milli(x.Status.Capacity),
			"pool": x.Labels[v1.NodePoolLabelKey], "rv": x.ResourceVersion}
	case *corev1.Pod:
		owner := "none"
		for _, r := range x.OwnerReferences {
			switch r.Kind {
			case "DaemonSet":
				owner = "daemonset"
			case "Node":
				owner = "node"
			case "StatefulSet":
				owner = "statefulset"
			case "ReplicaSet":
				owner = "replicaset"
			default:
				owner = "other"
			}
		}
		tgps := 30
		if x.Spec.TerminationGracePeriodSeconds != nil {
			tgps = int(*x.Spec.TerminationGracePeriodSeconds)
		}
		tolDisrupt := false
		for _, t := range x.Spec.Tolerations {
			if t.ToleratesTaint(klog.Background(), &v1.DisruptedNoScheduleTaint, false) {
				tolDisrupt = true
			}
		}
		prio := 0
		if x.Spec.Priority != nil {
			prio = int(*x.Spec.Priority)
		}
		return trace.M{"kind": "Pod", "name": x.Name, "ns": x.Namespace, "uid": string(x.UID), "node": orDash(x.Spec.NodeName),
			"phase": string(x.Status.Phase), "deleting": !x.DeletionTimestamp.IsZero(), "deletedAt": secPtr(x.DeletionTimestamp),
			"created": Sec(x.CreationTimestamp.Time), "started": secPtr(x.Status.StartTime),
			"tgps": tgps, "owner": owner, "priorityClass": orDash(x.Spec.PriorityClassName), "priority": prio,
			"dnd": orDash(x.Annotations[v1.DoNotDisruptAnnotationKey]), "toleratesDisruption": tolDisrupt,
			"labels": strMap(x.Labels), "annotations": strMap(x.Annotations), "rv": x.ResourceVersion}
	case *v1.NodePool:
		m := trace.M{"kind": "NodePool", "name": x.Name, "uid": string(x.UID), "gen": int(x.Generation),
			"rv": x.ResourceVersion, "annotations": strMap(x.Annotations), "replicas": -1, "weight": -1}
		if x.Spec.Replicas != nil {
			m["replicas"] = int(*x.Spec.Replicas)
		}
		if x.Spec.Weight != nil {
			m["weight"] = int(*x.Spec.Weight)
		}
		for _, t := range []string{v1.ConditionTypeNodeRegistrationHealthy, v1.ConditionTypeNodeClassReady, v1.ConditionTypeValidationSucceeded} {
			st := "Absent"
			for _, c := range x.Status.Conditions {
				if c.Type == t {
					st = string(c.Status)
				}
			}
			m[lowerFirst(t)] = st
		}
		m["nodes"] = int(lo.FromPtr(x.Status.Nodes))
		m["resources"] = milli(x.Status.Resources)
		return m
	case *storagev1.VolumeAttachment:
		pv := "-"
		if x.Spec.Source.PersistentVolumeName != nil {
			pv = *x.Spec.Source.PersistentVolumeName
		}
		return trace.M{"kind": "VolumeAttachment", "name": x.Name, "node": x.Spec.NodeName, "pv": pv,
			"deleting": !x.DeletionTimestamp.IsZero()}
	case *policyv1.PodDisruptionBudget:
		return trace.M{"kind": "PodDisruptionBudget", "name": x.Name, "ns": x.Namespace, "allowed": int(x.Status.DisruptionsAllowed)}
	}
	return trace.M{"kind": kindOf(o), "name": o.GetName()}
}

func lowerFirst(s string) string {
	if s == "" {
		return s
	}
	b := []byte(s)
	if b[0] >= 'A' && b[0] <= 'Z' {
		b[0] += 'a' - 'A'
	}
	return string(b)
}
