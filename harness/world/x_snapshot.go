package world

// Snapshot projection for C18 (frame conditions of scheduling simulations / provisioning passes).
//
// A Snapshot event carries the WHOLE observable world at one instant, section by section, as small abstract
// records plus digests:
//
//	api        every object in the API store (read straight from the object tracker, not through a typed List, so a
//	           kind nobody thought of is covered): key Kind/ns/name, resourceVersion, digest of the canonical JSON
//	nodes      every StateNode of the in-memory cluster state: one digest PER FIELD (reflection over all fields,
//	           exported or not: Node, NodeClaim, pod/daemon requests and limits, disruption costs, hostPortUsage,
//	           volumeUsage, markedForDeletion, nominatedUntil and whatever is added later)
//	cache      every other field of state.Cluster (bindings, name->providerID maps, nodePoolResources, daemonSetPods,
//	           NodePoolState, pod bookkeeping maps, antiAffinityPods, bufferPodCounts, consolidation timestamp ...): one
//	           digest per field, again by reflection, so a new field is covered the day it appears
//	catalog    the provider's instance types: the ORDER of every slice the provider hands out (a sort-in-place changes
//	           it), per type a digest of the full content (requirement CONTENTS, offering ORDER and contents, capacity,
//	           overhead, the memoised allocatable groups) and a small record per offering
//	instances  digest of the provider's instance table
//	x          driver-supplied extra sections (e.g. the candidates handed to a simulation, with their pods)
//
// The canonical form is produced by a reflection walk (canon) that follows pointers, reads unexported fields,
// sorts maps by key, KEEPS slice order, iterates sync.Map, and normalises the few types whose in-memory
// representation is not a function of their value (time.Time, resource.Quantity, locks).
// The driver only records; Frame_Trace.tla compares snapshots section by section.

import (
	"crypto/sha256"
	"encoding/hex"
	"encoding/json"
	"fmt"
	"math"
	"os"
	"reflect"
	"sort"
	"strconv"
	"strings"
	"sync"
	"time"
	"unsafe"

	"k8s.io/apimachinery/pkg/api/meta"
	"k8s.io/apimachinery/pkg/api/resource"
	"k8s.io/apimachinery/pkg/runtime"

	"sigs.k8s.io/karpenter/pkg/cloudprovider"

	"verif/harness/trace"
)

// ---------------------------------------------------------------- canonical form by reflection

var (
	tTime     = reflect.TypeOf(time.Time{})
	tQuantity = reflect.TypeOf(resource.Quantity{})
	tSyncMap  = reflect.TypeOf(sync.Map{})
)

// infraPkgs: dynamic types from these packages behind an INTERFACE are infrastructure handles (clients, clocks,
// providers, recorders), not state.
var infraPkgs = []string{"verif/harness", "sigs.k8s.io/controller-runtime", "k8s.io/utils/clock", "k8s.io/client-go", "k8s.io/klog",
	"github.com/go-logr"}

type canonizer struct {
	path   map[unsafe.Pointer]bool // pointers on the current path (cycle guard; shared sub-objects are expanded again)
	leaves int
	skip   map[string]bool // "Type.field" left out (driver-supplied sections only)
}

// writable returns v as a value whose fields can be read (addressable, not read-only).
func writable(v reflect.Value) reflect.Value {
	if v.CanAddr() {
		return v
	}
	c := reflect.New(v.Type()).Elem()
	c.Set(v)
	return c
}

// field returns field i of the addressable struct s with the read-only flag removed.
func field(s reflect.Value, i int) reflect.Value {
	f := s.Field(i)
	return reflect.NewAt(f.Type(), unsafe.Pointer(f.UnsafeAddr())).Elem()
}

func fmtFloat(f float64) string {
	switch {
	case math.IsNaN(f):
		return "NaN"
	case math.IsInf(f, 1):
		return "+Inf"
	case math.IsInf(f, -1):
		return "-Inf"
	}
	return strconv.FormatFloat(f, 'g', -1, 64)
}

func canonQuantity(q resource.Quantity) string {
	c := q.DeepCopy()
	// value, not representation: 1 == 1000m, 1Gi == 1073741824; sub-nano precision does not occur
	d := c.AsDec()
	s := d.String()
	if strings.Contains(s, ".") {
		s = strings.TrimRight(strings.TrimRight(s, "0"), ".")
	}
	if s == "" || s == "-" {
		s = "0"
	}
	return "q:" + s
}

func (c *canonizer) canon(v reflect.Value) any {
	if !v.IsValid() {
		return nil
	}
	t := v.Type()
	switch t {
	case tTime:
		tm := v.Interface().(time.Time)
		c.leaves++
		if tm.IsZero() {
			return "t:0"
		}
		return "t:" + strconv.FormatInt(tm.UnixNano(), 10)
	case tQuantity:
		c.leaves++
		return canonQuantity(v.Interface().(resource.Quantity))
	case tSyncMap:
		w := writable(v)
		m := (*sync.Map)(unsafe.Pointer(w.UnsafeAddr()))
		out := map[string]any{}
		m.Range(func(k, val any) bool {
			out[c.keyString(reflect.ValueOf(k))] = c.canon(reflect.ValueOf(val))
			return true
		})
		return out
	}
	if p := t.PkgPath(); p == "sync" {
		return "-" // Mutex, RWMutex, Once, WaitGroup: not state
	} else if p == "sync/atomic" {
		w := writable(v)
		if m := w.Addr().MethodByName("Load"); m.IsValid() && m.Type().NumIn() == 0 {
			return c.canon(m.Call(nil)[0])
		}
		return "-"
	}
	switch v.Kind() {
	case reflect.Bool:
		c.leaves++
		return v.Bool()
	case reflect.Int, reflect.Int8, reflect.Int16, reflect.Int32, reflect.Int64:
		c.leaves++
		return strconv.FormatInt(v.Int(), 10)
	case reflect.Uint, reflect.Uint8, reflect.Uint16, reflect.Uint32, reflect.Uint64, reflect.Uintptr:
		c.leaves++
		return strconv.FormatUint(v.Uint(), 10)
	case reflect.Float32, reflect.Float64:
		c.leaves++
		return "f:" + fmtFloat(v.Float())
	case reflect.Complex64, reflect.Complex128:
		c.leaves++
		return fmt.Sprint(v.Complex())
	case reflect.String:
		c.leaves++
		return v.String()
	case reflect.Func, reflect.Chan, reflect.UnsafePointer:
		return "-"
	case reflect.Interface:
		if v.IsNil() {
			return nil
		}
		e := v.Elem()
		et := e.Type()
		for et.Kind() == reflect.Pointer {
			et = et.Elem()
		}
		for _, p := range infraPkgs {
			if strings.HasPrefix(et.PkgPath(), p) {
				return "-"
			}
		}
		return c.canon(e)
	case reflect.Pointer:
		if v.IsNil() {
			return nil
		}
		p := v.UnsafePointer()
		if c.path[p] {
			return "$cycle"
		}
		c.path[p] = true
		defer delete(c.path, p)
		return c.canon(v.Elem())
	case reflect.Map:
		out := map[string]any{}
		it := v.MapRange()
		for it.Next() {
			out[c.keyString(it.Key())] = c.canon(it.Value())
		}
		return out // encoding/json sorts map keys
	case reflect.Slice, reflect.Array:
		if t.Elem().Kind() == reflect.Uint8 {
			c.leaves++
			b := make([]byte, v.Len())
			for i := range b {
				b[i] = byte(v.Index(i).Uint())
			}
			return "b:" + hex.EncodeToString(b)
		}
		out := make([]any, 0, v.Len())
		for i := 0; i < v.Len(); i++ { // ORDER is part of the canonical form
			out = append(out, c.canon(v.Index(i)))
		}
		return out
	case reflect.Struct:
		s := writable(v)
		out := map[string]any{}
		for i := 0; i < t.NumField(); i++ {
			if c.skip[t.Name()+"."+t.Field(i).Name] {
				continue
			}
			out[t.Field(i).Name] = c.canon(field(s, i))
		}
		return out
	}
	return fmt.Sprintf("?%s", v.Kind())
}

func (c *canonizer) keyString(k reflect.Value) string {
	for k.Kind() == reflect.Interface && !k.IsNil() {
		k = k.Elem()
	}
	if k.Kind() == reflect.String {
		return k.String()
	}
	b, _ := json.Marshal(c.canon(k))
	return string(b)
}

// root makes x walkable: a pointer is followed as is; anything else is copied into an addressable value.
func root(x any) reflect.Value {
	v := reflect.ValueOf(x)
	if !v.IsValid() {
		return v
	}
	return v
}

func hashJSON(x any) string {
	b, err := json.Marshal(x)
	if err != nil {
		panic(fmt.Sprintf("snapshot: canonical form not serialisable: %v", err))
	}
	h := sha256.Sum256(b)
	return hex.EncodeToString(h[:8])
}

// Canon returns the canonical form of any Go value (see the package comment of this file).
func Canon(x any) any {
	c := &canonizer{path: map[unsafe.Pointer]bool{}}
	return c.canon(root(x))
}

// Digest = short hash of the canonical form; Leaves = number of scalar leaves (a size measure for the log).
func Digest(x any) string { return hashJSON(Canon(x)) }

func digestValue(v reflect.Value, skip ...string) (string, int) {
	c := &canonizer{path: map[unsafe.Pointer]bool{}, skip: map[string]bool{}}
	for _, s := range skip {
		c.skip[s] = true
	}
	cv := c.canon(v)
	return hashJSON(cv), c.leaves
}

// scalarString renders small scalar fields readably (times as seconds since the epoch), "-" for everything else.
func scalarString(v reflect.Value) string {
	if !v.IsValid() {
		return "-"
	}
	if v.Type() == tTime {
		tm := v.Interface().(time.Time)
		if tm.IsZero() {
			return "none"
		}
		return strconv.Itoa(Sec(tm))
	}
	switch v.Kind() {
	case reflect.Bool:
		return strconv.FormatBool(v.Bool())
	case reflect.Int, reflect.Int8, reflect.Int16, reflect.Int32, reflect.Int64:
		return strconv.FormatInt(v.Int(), 10)
	case reflect.String:
		if len(v.String()) <= 40 {
			return orDash(v.String())
		}
	case reflect.Struct:
		if v.NumField() == 1 { // metav1.Time and friends
			return scalarString(field(writable(v), 0))
		}
	}
	return "-"
}

// item is one entry of a section's normal form: v = the compared value, c = the class reported when it differs,
// n / s = size and readable scalar value (diagnosis only).
func item(v any, class string, n int, s string) trace.M {
	return trace.M{"v": v, "c": class, "n": n, "s": s}
}

// newSection: a section is a JSON object item-key -> item; the dummy entry keeps it from ever being empty (TLC's Json
// module turns {} into the empty TUPLE).
func newSection() trace.M { return trace.M{"_": item("-", "-", 0, "-")} }

// fieldItems adds one item per field of the struct s (all fields, exported or not) under prefix, except `skip`.
func fieldItems(sec trace.M, prefix string, s reflect.Value, skip map[string]bool) {
	s = writable(s)
	t := s.Type()
	for i := 0; i < t.NumField(); i++ {
		name := t.Field(i).Name
		if skip[name] {
			continue
		}
		f := field(s, i)
		d, n := digestValue(f)
		sec[prefix+name] = item(d, name, n, scalarString(f))
	}
}

// ---------------------------------------------------------------- sections

// SnapItem / SnapExtra: a driver-supplied section (items digested with the same canonical form).
type SnapItem struct {
	Key  string
	Val  any
	Skip []string // struct fields ("Type.field") left out of this item's canonical form
}
type SnapExtra struct {
	Name  string
	Items []SnapItem
}

// snapAPI reads every stored object straight from the tracker.
func (w *World) snapAPI() trace.M {
	tv := reflect.ValueOf(w.Raw)
	for tv.Kind() == reflect.Interface || tv.Kind() == reflect.Pointer {
		tv = tv.Elem()
	}
	of := tv.FieldByName("objects")
	if !of.IsValid() || of.Kind() != reflect.Map {
		panic("snapshot: the object tracker has no `objects` map (client-go changed); adapt harness/world/x_snapshot.go")
	}
	of = reflect.NewAt(of.Type(), unsafe.Pointer(of.UnsafeAddr())).Elem()
	sec := newSection()
	it := of.MapRange()
	for it.Next() {
		it2 := it.Value().MapRange()
		for it2.Next() {
			vo := writable(it2.Value())
			obj, ok := field(vo, fieldIndex(vo.Type(), "Object")).Interface().(runtime.Object)
			if !ok || obj == nil {
				continue
			}
			acc, err := meta.Accessor(obj)
			if err != nil {
				continue
			}
			b, err := json.Marshal(obj)
			if err != nil {
				panic(fmt.Sprintf("snapshot: cannot serialise %T %s: %v", obj, acc.GetName(), err))
			}
			h := sha256.Sum256(b)
			kind := kindOf(obj)
			key := kind + "/" + acc.GetNamespace() + "/" + acc.GetName()
			if _, dup := sec[key]; dup { // the same kind/ns/name under two resources (does not happen with the scheme in use)
				key += "@" + fmt.Sprint(it.Key().Interface())
			}
			sec[key] = item([]string{orDash(acc.GetResourceVersion()), hex.EncodeToString(h[:8])}, kind, len(b), "-")
		}
	}
	return sec
}

func fieldIndex(t reflect.Type, name string) int {
	for i := 0; i < t.NumField(); i++ {
		if t.Field(i).Name == name {
			return i
		}
	}
	panic("snapshot: field " + name + " not found in " + t.String())
}

// snapCluster projects an in-memory cluster state (any struct pointer; its `nodes` map is expanded per entry and per
// field, every other field gets one item).
func snapCluster(cluster any) (nodes trace.M, cache trace.M) {
	nodes, cache = newSection(), newSection()
	if cluster == nil {
		return
	}
	cv := reflect.ValueOf(cluster)
	for cv.Kind() == reflect.Pointer || cv.Kind() == reflect.Interface {
		if cv.IsNil() {
			return
		}
		cv = cv.Elem()
	}
	if cv.Kind() != reflect.Struct {
		panic("snapshot: cluster state is not a struct")
	}
	cv = writable(cv)
	t := cv.Type()
	skip := map[string]bool{}
	for i := 0; i < t.NumField(); i++ {
		if t.Field(i).Name != "nodes" {
			continue
		}
		nf := field(cv, i)
		if nf.Kind() != reflect.Map {
			continue
		}
		skip["nodes"] = true
		it := nf.MapRange()
		for it.Next() {
			n := it.Value()
			for n.Kind() == reflect.Pointer && !n.IsNil() {
				n = n.Elem()
			}
			key := orDash(fmt.Sprint(it.Key().Interface()))
			if n.Kind() != reflect.Struct {
				d, cnt := digestValue(it.Value())
				nodes[key+"|value"] = item(d, "value", cnt, "-")
				continue
			}
			fieldItems(nodes, key+"|", n, nil)
		}
	}
	// infrastructure handles and locks carry no state: they canonicalise to "-" and therefore never differ
	fieldItems(cache, "", cv, skip)
	return
}

func price5(p float64) int {
	if math.IsNaN(p) || math.IsInf(p, 0) || p > 20000 || p < 0 {
		return -1
	}
	return int(math.Round(p * 100000))
}

// snapCatalog: the order of every slice the provider hands out + per type: full-content digest, requirement contents,
// capacity, and the offerings IN ORDER as small records.
func (p *Provider) snapCatalog() trace.M {
	names := func(its []*cloudprovider.InstanceType) []string {
		out := []string{}
		for _, it := range its {
			if it == nil {
				out = append(out, "<nil>")
				continue
			}
			out = append(out, it.Name)
		}
		return out
	}
	sec := newSection()
	seen := map[*cloudprovider.InstanceType]bool{}
	var all []*cloudprovider.InstanceType
	add := func(its []*cloudprovider.InstanceType) {
		for _, it := range its {
			if it != nil && !seen[it] {
				seen[it] = true
				all = append(all, it)
			}
		}
	}
	add(p.Types)
	sec["order"] = item(names(p.Types), "order", len(p.Types), "-")
	for k, its := range p.TypesForPool {
		add(its)
		sec["pool:"+k] = item(names(its), "pool-order", len(its), "-")
	}
	// identify a type by its name (and a counter when two distinct objects share a name), not by its position
	cnt := map[string]int{}
	sort.SliceStable(all, func(i, j int) bool { return all[i].Name < all[j].Name })
	for _, it := range all {
		cnt[it.Name]++
		id := "type:" + it.Name
		if cnt[it.Name] > 1 {
			id += "#" + strconv.Itoa(cnt[it.Name])
		}
		// the allocatable groups are memoised on first use; force them so that "computed" vs "not yet computed" never differs
		_ = it.AllocatableOfferingsList()
		offs := []trace.M{}
		for _, o := range it.Offerings {
			if o == nil {
				offs = append(offs, trace.M{"zone": "<nil>", "ct": "-", "price": -1, "available": false, "rid": "-", "rcap": -1, "d": "-"})
				continue
			}
			rid := "-"
			if o.Requirements.Has(cloudprovider.ReservationIDLabel) { // (ReservationID() of an offering without the label is a random value)
				rid = orDash(o.ReservationID())
			}
			offs = append(offs, trace.M{"zone": orDash(o.Zone()), "ct": orDash(o.CapacityType()), "price": price5(o.Price), "available": o.Available,
				"rid": rid, "rcap": o.ReservationCapacity, "d": Digest(o)})
		}
		d, n := digestValue(reflect.ValueOf(it))
		sec[id+":content"] = item(d, "type-content", n, "-")
		sec[id+":requirements"] = item(Digest(it.Requirements), "requirements", len(it.Requirements), "-")
		sec[id+":capacity"] = item(Digest(it.Capacity), "capacity", len(it.Capacity), "-")
		sec[id+":offerings"] = item(offs, "offerings", len(offs), "-")
	}
	return sec
}

// SnapshotEnabled: Snapshot events are only recorded for the C18 check (VERIF_FRAME=1); the other checks that share the
// drivers neither pay for them nor see them in their traces.
func SnapshotEnabled() bool { return os.Getenv("VERIF_FRAME") != "" }

// Snapshot builds the Snapshot event (not yet emitted). `cluster` is the *state.Cluster (or nil).
// Every section is a JSON object in the normal form Frame_Trace.tla compares: item-key -> {v, c, n, s}.
func (w *World) Snapshot(cluster any, extra ...SnapExtra) trace.M {
	api := w.snapAPI()
	nodes, cache := snapCluster(cluster)
	cat := w.Prov.snapCatalog()
	w.Prov.mu.Lock()
	instD, instN := digestValue(reflect.ValueOf(w.Prov.Instances))
	w.Prov.mu.Unlock()
	inst := newSection()
	inst["table"] = item(instD, "instances", instN, "-")
	x := newSection()
	for _, e := range extra {
		for _, it := range e.Items {
			d, n := digestValue(reflect.ValueOf(it.Val), it.Skip...)
			x[e.Name+"|"+it.Key] = item(d, e.Name, n, "-")
			if dir := os.Getenv("VERIF_SNAP_DEBUG"); dir != "" { // diagnosis only: the canonical form behind every digest of section x
				b, _ := json.MarshalIndent(Canon(it.Val), "", " ")
				_ = os.WriteFile(fmt.Sprintf("%s/x-%s-%s-%s.json", dir, e.Name, strings.ReplaceAll(it.Key, "/", "_"), d), b, 0o644)
			}
		}
	}
	ev := trace.M{"e": "Snapshot", "api": api, "node": nodes, "cache": cache, "catalog": cat, "instances": inst, "x": x}
	ev["digest"] = trace.M{"api": hashJSON(api), "node": hashJSON(nodes), "cache": hashJSON(cache), "catalog": hashJSON(cat),
		"instances": instD, "x": hashJSON(x)}
	return ev
}
